package main

import (
	"bytes"
	"crypto/sha256"
	"encoding/hex"
	"encoding/json"
	"fmt"
	"os"
	"reflect"
	"regexp"
	"runtime/debug"
	"sort"
	"strings"
	"sync"
	"sync/atomic"
	"time"

	"github.com/influxdata/influxql"
)

// c17: concurrency of independent parses and read-only use of a shared AST.
//
// The suite manages its own goroutines (Serial) and is meant to be built with -race and run
// with GORACE="halt_on_error=0 exitcode=0 log_path=$C17_RACELOG ..." so that the race
// detector writes its reports to $C17_RACELOG.<pid>; after every case the driver looks at
// how much that file grew and attributes the new reports to the case.  It records, it does
// not judge: write sets, result hashes next to their sequential twins, report counts.
//
// case kinds (spec/c17/Gen_c17.tla):
//
//	alone     one operation, alone, on a fresh AST: deep snapshot (unexported fields included)
//	          and package fingerprint before/after -> write set; then the same call on three
//	          unordered goroutines (one of them late) under the detector
//	sched     g goroutines released from a barrier, goroutine t runs ops[t mod len(ops)] reps
//	          times on the shared (or its private) AST; every result next to its twin
//	selftest  a deliberate race on a variable of the harness: shows the detector records
//
// influxql.VerifTrace is never touched here (it stays nil).

// ---------------------------------------------------------------- statement pools

var c17Selects = []string{
	`SELECT mean(value), max(*) FROM cpu WHERE host = 'a' AND time > now() - 1h AND region =~ /^us/ GROUP BY time(5m, 1m), * fill(previous) ORDER BY time DESC LIMIT 5 OFFSET 2 SLIMIT 3 SOFFSET 1 TZ('America/Chicago')`,
	`SELECT * INTO "db"."rp"."out" FROM "db"."rp".cpu, mem WHERE usage > 1.5 OR (idle <= 3 AND host != 'b\'c')`,
	`SELECT top(value, host, 2), host AS h FROM (SELECT value, host FROM cpu WHERE value > 0 GROUP BY host) WHERE time >= '2020-01-01T00:00:00Z' AND time < '2020-01-02' GROUP BY time(1h)`,
	`SELECT a + b * 2 AS x, /^c/ FROM /^m.*/ WHERE a::integer > 1 AND b = true AND host = 'cpu' GROUP BY /h.*/ fill(0)`,
	`SELECT count(distinct(v)), first(v), sum(v) / count(v) FROM cpu WHERE (a = 1 OR c1 = 'x') AND time > 0 GROUP BY time(10s), "t a g" fill(linear)`,
	`SELECT value, "select" FROM cpu`,
	// field lists whose backing array has spare capacity (the parser appends: 3 fields -> cap 4, 5 -> cap 8) and
	// selector calls with tag arguments in last / first position: operations that build a column list from Fields
	`SELECT a, b, top(value, host, 2) FROM cpu`,
	`SELECT v1, v2, v3, v4, bottom(value, host, region, 3) FROM cpu GROUP BY time(1m)`,
	`SELECT top(value, host, 2), usage, idle FROM cpu WHERE time > now() - 1h`,
	// a wildcard / regex as the direct first argument of every function that has a type filter of its own, in one statement
	`SELECT holt_winters(*, 10, 4), count(*), min(*), sum(/./), holt_winters_with_fit(*, 10, 4), mean(*), distinct(*), percentile(*, 90) FROM cpu GROUP BY time(1m), host`,
	`SELECT max(*), holt_winters(/a|v/, 2, 2), first(*), mode(*) FROM cpu, mem WHERE time > now() - 1h GROUP BY time(5m), host, region`,
	// every reference carries its type already (nothing for wildcard expansion to do)
	`SELECT value::float, host::tag, max(usage::float) FROM cpu, mem WHERE region::tag = 'west' AND value::float > 0.5 GROUP BY host LIMIT 7`,
	// "~": keywords written in a mixed case that differs from case to case (see caseSalt)
	`~select value, mean(usage) from cpu where host = 'a' and time > now() - 1h group by time(1m), host order by time desc limit 3 offset 1`,
}

var c17Aux = []string{
	`CREATE USER cpu WITH PASSWORD 'pw' WITH ALL PRIVILEGES`,
	`SHOW TAG VALUES ON db FROM cpu WITH KEY IN (a, b) WHERE x = 'y' LIMIT 3`,
	`DELETE FROM cpu WHERE time < now()`,
	`CREATE CONTINUOUS QUERY cq ON db BEGIN SELECT mean(v) INTO out FROM cpu GROUP BY time(1m) END`,
	`GRANT READ ON db TO cpu`,
	`ALTER RETENTION POLICY cpu ON db DURATION 1d REPLICATION 2 DEFAULT`,
	`SHOW MEASUREMENTS WITH MEASUREMENT =~ /c.*/ WHERE host = 'cpu'`,
	`DROP SERIES FROM cpu WHERE host = 'a'`,
	`~show tag values on db from cpu with key in (a, b) where x = 'y' limit 3`,
	`~create retention policy cpu on db duration 1d replication 2 shard duration 1h default`,
}

var c17Exprs = []string{
	`host = 'a' AND time > now() - 1h AND region =~ /^us/`,
	`usage > 1.5 OR (idle <= 3 AND host != 'b\'c')`,
	`(1 + 2) * 3 - x / 4.5 > 0 AND "a b" = 'q'`,
	`a::integer > 1 AND b = true`,
	`f(x, 'y', 3) + 1h > 2 AND (`, // a parse error is a result, too
	`time >= '2020-01-01T00:00:00Z' AND time < '2020-01-02'`,
}

var c17Strings = []string{"plain", "it's", "a\nb", `back\slash`, `"dq"`, "", "select", "ünï", `'\'`}
var c17Idents = [][]string{{"cpu"}, {"db", "rp", "cpu"}, {"select"}, {"a b", "", "c\"d"}, {"", "x"}, {"_ok1"}, {"1x"}, {"time"}}
var c17Durs = []time.Duration{0, 1, 1500 * time.Nanosecond, time.Millisecond, 90 * time.Second, 36 * time.Hour, 14 * 24 * time.Hour, -5 * time.Minute, 3*time.Hour + time.Millisecond}
var c17DurTexts = []string{"1h", "90m", "2w3d", "1.5h", "10u", "5µs", "-3s", "1h30m10s", "", "9223372036854775807ns", "1x"}
var c17Sanit = []string{
	`create user "admin" with password 'admin'`,
	`set password for "admin" = 'secret'`,
	`SELECT * FROM cpu`,
	`CREATE USER x WITH PASSWORD 'p1'; SET PASSWORD FOR y = 'p2'`,
}
var c17Quoted = []string{`'abc'`, `'it\'s'`, `"id\"x"`, `'a\nb'`, `'unterminated`, `'bad\qescape'`}

var c17Data = map[string]interface{}{
	"host": "a", "region": "us-west", "usage": 2.0, "idle": int64(1), "a": int64(2), "b": true, "c1": "x",
	"value": 1.5, "v": 3.0, "x": 9.0,
}

var c17Now = time.Unix(1600000000, 0).UTC()
var c17ReaskN int64
var c17Params = map[string]interface{}{"host": "a", "min": 1.5, "re": map[string]interface{}{"regex": "^us"}, "d": map[string]interface{}{"duration": "1h"}, "unused": int64(3)}
var c17BaseValuer = influxql.MultiValuer(influxql.MultiValuer(influxql.MapValuer{}, influxql.MapValuer{}), influxql.MapValuer{})
var c17DeepExpr = strings.Repeat("(", 400) + "a + 1" + strings.Repeat(")", 400) + " > 2"

type c17Mapper struct{}

func (c17Mapper) FieldDimensions(m *influxql.Measurement) (map[string]influxql.DataType, map[string]struct{}, error) {
	return map[string]influxql.DataType{"value": influxql.Float, "usage": influxql.Float, "idle": influxql.Integer,
			"v": influxql.Float, "a": influxql.Integer, "b": influxql.Boolean, "c1": influxql.String, "cnt": influxql.Unsigned},
		map[string]struct{}{"host": {}, "region": {}, "t a g": {}}, nil
}

func (c17Mapper) MapType(m *influxql.Measurement, field string) influxql.DataType {
	switch field {
	case "value", "usage", "v":
		return influxql.Float
	case "idle", "a":
		return influxql.Integer
	case "b":
		return influxql.Boolean
	case "c1":
		return influxql.String
	case "cnt":
		return influxql.Unsigned
	case "host", "region", "t a g":
		return influxql.Tag
	}
	return influxql.Unknown
}

// c17SharedMapper hands out the SAME maps on every call and to every goroutine (a schema cache).  The package
// only reads what a FieldMapper gives it; a write into these maps is a data race with every other reader.
var c17SharedFields = map[string]influxql.DataType{"value": influxql.Float, "usage": influxql.Float, "idle": influxql.Integer,
	"v": influxql.Float, "a": influxql.Integer, "b": influxql.Boolean, "c1": influxql.String, "cnt": influxql.Unsigned}
var c17SharedDims = map[string]struct{}{"host": {}, "region": {}, "t a g": {}}

type c17SharedMapper struct{ c17Mapper }

func (c17SharedMapper) FieldDimensions(m *influxql.Measurement) (map[string]influxql.DataType, map[string]struct{}, error) {
	return c17SharedFields, c17SharedDims, nil
}

// ---------------------------------------------------------------- objects

// c17Obj is the (possibly shared) AST: a Query of two statements, the second a SELECT.
type c17Obj struct {
	q   *influxql.Query
	sel *influxql.SelectStatement
}

// c17In selects the inputs of a case: indices into the pools and a salt n.  Every text handed
// to the package carries the salt (each "cpu" becomes "cpu_k<n>", probes get a salted member),
// so that no two cases - and neither a concurrent run and the twins computed after it - use
// the same strings: a cache keyed by text misses on first use in every case.
type c17In struct{ stmt, aux, n int }

func (in c17In) s() string { return fmt.Sprintf("k%d", in.n) }
func (in c17In) salted(t string) string {
	if strings.HasPrefix(t, "~") {
		t = caseSalt(t[1:], in.n)
	}
	return strings.ReplaceAll(t, "cpu", "cpu_"+in.s())
}

// caseSalt writes every keyword of a lower-case statement text in a mixed case derived from n, so that each case
// spells the keywords as no case before it did (a table keyed by spelling misses).  Names and literals stay as they are.
var c17KwWords = map[string]bool{"select": true, "from": true, "where": true, "group": true, "by": true, "order": true, "desc": true,
	"limit": true, "offset": true, "and": true, "show": true, "tag": true, "values": true, "on": true, "with": true, "key": true, "in": true,
	"create": true, "retention": true, "policy": true, "duration": true, "replication": true, "shard": true, "default": true}

func caseSalt(t string, n int) string {
	words := strings.Split(t, " ")
	for wi, w := range words {
		if !c17KwWords[w] {
			continue
		}
		b := []byte(w)
		for j := range b {
			if ((n+1)>>uint((j+wi)%12))&1 == 1 {
				b[j] = b[j] - 'a' + 'A'
			}
		}
		words[wi] = string(b)
	}
	return strings.Join(words, " ")
}
func (in c17In) selectText() string { return in.salted(c17Selects[in.stmt%len(c17Selects)]) }
func (in c17In) auxText() string    { return in.salted(c17Aux[in.aux%len(c17Aux)]) }
func (in c17In) exprText(i int) string {
	return c17Exprs[(in.stmt+i)%len(c17Exprs)] + " AND tag = 'cpu_" + in.s() + "'"
}
func (in c17In) strings() []string {
	return append([]string{"cpu_" + in.s(), "it's " + in.s()}, c17Strings...)
}

func c17Build(in c17In) *c17Obj {
	q, err := influxql.ParseQuery(in.auxText() + "; " + in.selectText())
	if err != nil {
		panic("c17 pool statement does not parse: " + err.Error())
	}
	return &c17Obj{q: q, sel: q.Statements[1].(*influxql.SelectStatement)}
}

// c17ColdObj builds an AST without calling any function of the package (cold cases: the
// concurrent calls must be the first use of the package tables in the process).
func c17ColdObj(in c17In) *c17Obj {
	sel := &influxql.SelectStatement{
		Fields: influxql.Fields{
			{Expr: &influxql.Call{Name: "mean", Args: []influxql.Expr{&influxql.VarRef{Val: "value"}}}},
			{Expr: &influxql.VarRef{Val: "select"}, Alias: "s"},
			{Expr: &influxql.Wildcard{}},
		},
		Sources: influxql.Sources{&influxql.Measurement{Database: "db", RetentionPolicy: "rp", Name: "cpu_" + in.s()}},
		Condition: &influxql.BinaryExpr{Op: influxql.AND,
			LHS: &influxql.BinaryExpr{Op: influxql.EQ, LHS: &influxql.VarRef{Val: "host"}, RHS: &influxql.StringLiteral{Val: "a'b"}},
			RHS: &influxql.BinaryExpr{Op: influxql.GT, LHS: &influxql.VarRef{Val: "time"},
				RHS: &influxql.BinaryExpr{Op: influxql.SUB, LHS: &influxql.Call{Name: "now"}, RHS: &influxql.DurationLiteral{Val: time.Hour}}}},
		Dimensions: influxql.Dimensions{
			{Expr: &influxql.Call{Name: "time", Args: []influxql.Expr{&influxql.DurationLiteral{Val: 5 * time.Minute}}}},
			{Expr: &influxql.VarRef{Val: "host"}},
		},
		SortFields: influxql.SortFields{{Name: "time", Ascending: false}},
		Limit:      3,
		Fill:       influxql.PreviousFill,
	}
	q := &influxql.Query{Statements: influxql.Statements{
		&influxql.GrantStatement{Privilege: influxql.ReadPrivilege, On: "db", User: "u"}, sel}}
	return &c17Obj{q: q, sel: sel}
}

// ---------------------------------------------------------------- operations

type c17Op struct {
	name string
	ast  bool
	run  func(o *c17Obj, in c17In) string
}

func c17J(v interface{}) string {
	b, err := json.Marshal(v)
	if err != nil {
		return "json:" + err.Error()
	}
	return string(b)
}

func c17ExprStr(e influxql.Expr) string {
	if e == nil || (reflect.ValueOf(e).Kind() == reflect.Ptr && reflect.ValueOf(e).IsNil()) {
		return "<nil>"
	}
	return e.String()
}

type c17Visitor struct{ b *strings.Builder }

func (v c17Visitor) Visit(n influxql.Node) influxql.Visitor {
	if n != nil {
		fmt.Fprintf(v.b, "%T;", n)
	}
	return v
}

func c17Valuer() influxql.Valuer { return &influxql.NowValuer{Now: c17Now} }

var c17Ops = []c17Op{
	// ---- independent of any AST
	{"ParseQuery", false, func(o *c17Obj, in c17In) string {
		q, err := influxql.ParseQuery(in.auxText() + "; " + in.selectText())
		if err != nil {
			return "err:" + err.Error()
		}
		// a later statement that cannot even be started, one that fails inside: errors are results, too
		_, err2 := influxql.ParseQuery(in.auxText() + "; FOO " + in.s())
		_, err3 := influxql.ParseQuery("SHOW DATABASES; " + in.auxText() + ";\n42")
		_, err4 := influxql.ParseQuery(in.selectText() + "; SELECT FROM")
		return c17J(project(q)) + q.String() + "|" + errStr(err2) + "|" + errStr(err3) + "|" + errStr(err4)
	}},
	{"ParseStatement", false, func(o *c17Obj, in c17In) string {
		texts := []string{in.selectText(), in.auxText(), "SELECT FROM", "SHOW FOO " + in.s()}
		var b strings.Builder
		for _, t := range texts {
			s, err := influxql.ParseStatement(t)
			if err != nil {
				b.WriteString("err:" + err.Error() + "\n")
				continue
			}
			b.WriteString(c17J(project(s)) + "\n")
		}
		return b.String()
	}},
	{"ParseExpr", false, func(o *c17Obj, in c17In) string {
		var b strings.Builder
		// (deeply nested: what a parser counts while it descends is its own)
		if e, err := influxql.ParseExpr(c17DeepExpr); err != nil {
			b.WriteString("err:" + err.Error() + "\n")
		} else {
			b.WriteString(c17Hash(e.String()) + "\n")
		}
		for i := 0; i < 2; i++ {
			e, err := influxql.ParseExpr(in.exprText(i))
			if err != nil {
				b.WriteString("err:" + err.Error() + "\n")
				continue
			}
			b.WriteString(c17J(project(e)) + "\n")
		}
		return b.String()
	}},
	{"QuoteString", false, func(o *c17Obj, in c17In) string {
		var b strings.Builder
		for _, s := range in.strings() {
			b.WriteString(influxql.QuoteString(s) + "\n")
		}
		return b.String()
	}},
	{"QuoteIdent", false, func(o *c17Obj, in c17In) string {
		var b strings.Builder
		for _, s := range append([][]string{{"cpu_" + in.s()}, {"db", "r p", in.s()}}, c17Idents...) {
			b.WriteString(influxql.QuoteIdent(s...) + "\n")
		}
		return b.String()
	}},
	{"IdentNeedsQuotes", false, func(o *c17Obj, in c17In) string {
		var b strings.Builder
		for _, seg := range c17Idents {
			for _, s := range seg {
				fmt.Fprintf(&b, "%v,", influxql.IdentNeedsQuotes(s))
			}
		}
		for _, s := range in.strings() {
			fmt.Fprintf(&b, "%v,", influxql.IdentNeedsQuotes(s))
		}
		return b.String()
	}},
	{"FormatDuration", false, func(o *c17Obj, in c17In) string {
		var b strings.Builder
		for _, d := range append([]time.Duration{time.Duration(in.n+1) * time.Microsecond, time.Duration(in.n+1) * time.Minute}, c17Durs...) {
			b.WriteString(influxql.FormatDuration(d) + ",")
		}
		return b.String()
	}},
	{"ParseDuration", false, func(o *c17Obj, in c17In) string {
		var b strings.Builder
		for _, s := range append([]string{fmt.Sprintf("%dms", in.n+1), fmt.Sprintf("1h%du", in.n)}, c17DurTexts...) {
			d, err := influxql.ParseDuration(s)
			fmt.Fprintf(&b, "%d/%s,", int64(d), errStr(err))
		}
		return b.String()
	}},
	{"Sanitize", false, func(o *c17Obj, in c17In) string {
		var b strings.Builder
		for _, s := range append([]string{"create user cpu_" + in.s() + " with password 'pw" + in.s() + "'"}, c17Sanit...) {
			b.WriteString(influxql.Sanitize(s) + "\n")
		}
		return b.String()
	}},
	{"Scan", false, func(o *c17Obj, in c17In) string {
		var b strings.Builder
		sc := influxql.NewScanner(strings.NewReader(in.selectText() + " " + in.exprText(in.aux)))
		for i := 0; i < 1000; i++ {
			tok, pos, lit := sc.Scan()
			fmt.Fprintf(&b, "%s@%d:%d=%q;", tok.String(), pos.Line, pos.Char, lit)
			if tok == influxql.EOF {
				break
			}
		}
		return b.String()
	}},
	{"ScanString", false, func(o *c17Obj, in c17In) string {
		var b strings.Builder
		for _, s := range append([]string{"'cpu_" + in.s() + "'"}, c17Quoted...) {
			r, err := influxql.ScanString(strings.NewReader(s))
			fmt.Fprintf(&b, "%q/%s;", r, errStr(err))
		}
		return b.String()
	}},
	// every goroutine hands the SAME parameter map to its own parser
	{"ParseWithParams", false, func(o *c17Obj, in c17In) string {
		p := influxql.NewParser(strings.NewReader(`SELECT v FROM m WHERE h = $host AND v > $min AND t =~ $re AND time > now() - $d; SELECT $min FROM ` + "cpu_" + in.s()))
		p.SetParams(c17Params)
		q, err := p.ParseQuery()
		if err != nil {
			return "err:" + err.Error()
		}
		return c17J(project(q)) + q.String()
	}},
	// a parser asked again at the end of its input (the usual "call until EOF" loop) while a second parser has been
	// created: what the first one answers does not depend on the second one's text (which differs from call to call)
	{"ParserReask", false, func(o *c17Obj, in c17In) string {
		n := atomic.AddInt64(&c17ReaskN, 1)
		render := func(q *influxql.Query, err error) string {
			if err != nil {
				return "err:" + err.Error()
			}
			return c17J(project(q)) + q.String()
		}
		pa := influxql.NewParser(strings.NewReader(in.auxText() + "; " + in.selectText()))
		var b strings.Builder
		b.WriteString(render(pa.ParseQuery()))
		pb := influxql.NewParser(strings.NewReader(fmt.Sprintf("SELECT reask_%d FROM other_%d; SHOW DATABASES", n, n)))
		st, err := pa.ParseStatement()
		if err != nil {
			b.WriteString("|err:" + err.Error())
		} else {
			b.WriteString("|" + st.String())
		}
		b.WriteString("|" + render(pa.ParseQuery()))
		qb, errb := pb.ParseQuery()
		if errb != nil {
			b.WriteString("|second:err")
		} else {
			fmt.Fprintf(&b, "|second:%d", len(qb.Statements))
		}
		return b.String()
	}},
	// ---- on a (possibly shared) AST: read-only by the property
	{"String", true, func(o *c17Obj, in c17In) string { return o.q.String() + "\n" + o.sel.String() }},
	{"Clone", true, func(o *c17Obj, in c17In) string { c := o.sel.Clone(); return c17J(project(c)) + c.String() }},
	{"CloneExpr", true, func(o *c17Obj, in c17In) string {
		if o.sel.Condition == nil {
			return "<nil>"
		}
		return c17J(project(influxql.CloneExpr(o.sel.Condition)))
	}},
	{"Walk", true, func(o *c17Obj, in c17In) string {
		var b strings.Builder
		influxql.Walk(c17Visitor{&b}, o.q)
		return b.String()
	}},
	{"WalkFunc", true, func(o *c17Obj, in c17In) string {
		var b strings.Builder
		influxql.WalkFunc(o.q, func(n influxql.Node) { fmt.Fprintf(&b, "%T;", n) })
		return b.String()
	}},
	{"Eval", true, func(o *c17Obj, in c17In) string {
		v := influxql.Eval(o.sel.Condition, c17Data)
		var b strings.Builder
		fmt.Fprintf(&b, "%T:%v;", v, v)
		for _, f := range o.sel.Fields {
			ev := influxql.ValuerEval{Valuer: influxql.MapValuer(c17Data), IntegerFloatDivision: true}
			x := ev.Eval(f.Expr)
			fmt.Fprintf(&b, "%T:%v;", x, x)
		}
		return b.String()
	}},
	{"EvalBool", true, func(o *c17Obj, in c17In) string {
		return fmt.Sprint(influxql.EvalBool(o.sel.Condition, c17Data))
	}},
	{"EvalType", true, func(o *c17Obj, in c17In) string {
		var b strings.Builder
		for _, f := range o.sel.Fields {
			b.WriteString(influxql.EvalType(f.Expr, o.sel.Sources, c17Mapper{}).String() + ",")
			tv := influxql.TypeValuerEval{TypeMapper: c17Mapper{}, Sources: o.sel.Sources}
			t, err := tv.EvalType(f.Expr)
			b.WriteString(t.String() + "/" + errStr(err) + ";")
		}
		return b.String()
	}},
	{"Reduce", true, func(o *c17Obj, in c17In) string {
		e := influxql.Reduce(o.sel.Condition, c17Valuer())
		return c17ExprStr(e) + c17J(project(e))
	}},
	{"StmtReduce", true, func(o *c17Obj, in c17In) string {
		s := o.sel.Reduce(c17Valuer())
		return s.String() + c17J(project(s))
	}},
	{"RewriteFields", true, func(o *c17Obj, in c17In) string {
		var fm influxql.FieldMapper = c17Mapper{}
		if in.n%2 == 1 {
			fm = c17SharedMapper{} // a schema cache: the same maps for every call and goroutine
		}
		s, err := o.sel.RewriteFields(fm)
		if err != nil {
			return "err:" + err.Error()
		}
		return s.String() + c17J(project(s))
	}},
	// ... and the re-written statement is the caller's own: a planner sets window, limits and time fields on it
	{"RewriteFieldsUse", true, func(o *c17Obj, in c17In) string {
		s, err := o.sel.RewriteFields(c17Mapper{})
		if err != nil {
			return "err:" + err.Error()
		}
		s.Limit, s.Offset = 1000+in.n, in.n
		s.RewriteTimeFields()
		if err := s.SetTimeRange(c17Now.Add(-time.Duration(in.n+1)*time.Minute), c17Now); err != nil {
			return "err:" + err.Error()
		}
		s.Dimensions = append(s.Dimensions, &influxql.Dimension{Expr: &influxql.VarRef{Val: "extra_" + in.s()}})
		return s.String() + c17J(project(s))
	}},
	// every goroutine derives its own valuer (its own clock) from the SAME base valuer
	{"ReduceDerived", true, func(o *c17Obj, in c17In) string {
		d := influxql.MultiValuer(c17BaseValuer, &influxql.NowValuer{Now: c17Now.Add(time.Duration(in.n) * time.Hour)})
		s := o.sel.Reduce(d)
		return s.String()
	}},
	{"ColumnNames", true, func(o *c17Obj, in c17In) string { return strings.Join(o.sel.ColumnNames(), "|") }},
	{"RequiredPrivileges", true, func(o *c17Obj, in c17In) string {
		var b strings.Builder
		for _, s := range o.q.Statements {
			p, err := s.RequiredPrivileges()
			for _, x := range p {
				fmt.Fprintf(&b, "%v/%s/%s,", x.Admin, x.Name, x.Privilege.String())
			}
			b.WriteString(errStr(err) + ";")
		}
		return b.String()
	}},
	{"ConditionExpr", true, func(o *c17Obj, in c17In) string {
		e, tr, err := influxql.ConditionExpr(o.sel.Condition, c17Valuer())
		return fmt.Sprintf("%s|%s|%s|%s", c17ExprStr(e), timeNs(tr.Min), timeNs(tr.Max), errStr(err))
	}},
	{"HasWildcard", true, func(o *c17Obj, in c17In) string {
		return fmt.Sprint(o.sel.HasWildcard(), o.sel.HasFieldWildcard(), o.sel.HasDimensionWildcard())
	}},
	{"FieldExprByName", true, func(o *c17Obj, in c17In) string {
		var b strings.Builder
		for _, n := range []string{"value", "host", "h", "mean", "x", "select", "s", "time", "top", "nope"} {
			i, e := o.sel.FieldExprByName(n)
			fmt.Fprintf(&b, "%d:%s;", i, c17ExprStr(e))
		}
		return b.String()
	}},
	{"FieldNames", true, func(o *c17Obj, in c17In) string {
		return strings.Join(o.sel.Fields.Names(), "|") + "/" + strings.Join(o.sel.Fields.AliasNames(), "|")
	}},
	{"Measurements", true, func(o *c17Obj, in c17In) string {
		var b strings.Builder
		for _, m := range o.sel.Sources.Measurements() {
			b.WriteString(m.String() + ",")
		}
		return b.String()
	}},
	{"ExprNames", true, func(o *c17Obj, in c17In) string {
		var b strings.Builder
		for _, r := range influxql.ExprNames(o.sel.Condition) {
			b.WriteString(r.String() + ",")
		}
		return b.String()
	}},
	{"TimeAscending", true, func(o *c17Obj, in c17In) string {
		return fmt.Sprint(o.sel.TimeAscending(), o.sel.TimeFieldName())
	}},
	// ---- controls: NOT in the property's list (they write the memo)
	{"GroupByInterval", true, func(o *c17Obj, in c17In) string {
		d, err := o.sel.GroupByInterval()
		return fmt.Sprintf("%d/%s", int64(d), errStr(err))
	}},
	{"GroupByOffset", true, func(o *c17Obj, in c17In) string {
		d, err := o.sel.GroupByOffset()
		return fmt.Sprintf("%d/%s", int64(d), errStr(err))
	}},
}

var c17OpByName = func() map[string]*c17Op {
	m := map[string]*c17Op{}
	for i := range c17Ops {
		m[c17Ops[i].name] = &c17Ops[i]
	}
	return m
}()

func c17Hash(s string) string {
	h := sha256.Sum256([]byte(s))
	return hex.EncodeToString(h[:6])
}

// c17Call runs one operation under recover; a panic is a result like any other.
func c17Call(op *c17Op, o *c17Obj, in c17In) (res string) {
	defer func() {
		if r := recover(); r != nil {
			res = "panic:" + fmt.Sprint(r)
		}
	}()
	if !op.ast {
		in.n += 2 // texts parsed/quoted by the independent operations differ from the text the AST was built from
	}
	return op.run(o, in)
}

// ---------------------------------------------------------------- fingerprints

var c17ReT = reflect.TypeOf((*regexp.Regexp)(nil))
var c17LocT = reflect.TypeOf((*time.Location)(nil))

// c17Ptrs writes the pointer structure below v: addresses of pointers, (data, len, cap) of
// slices.  Together with the value snapshot it shows replaced nodes and grown slices.
func c17Ptrs(b *bytes.Buffer, v reflect.Value, depth int) {
	if depth > 300 {
		return
	}
	switch v.Kind() {
	case reflect.Ptr:
		fmt.Fprintf(b, "p%x", v.Pointer())
		if v.IsNil() || v.Type() == c17ReT || v.Type() == c17LocT {
			return
		}
		c17Ptrs(b, v.Elem(), depth+1)
	case reflect.Interface:
		if !v.IsNil() {
			c17Ptrs(b, v.Elem(), depth+1)
		}
	case reflect.Slice:
		fmt.Fprintf(b, "s%x/%d/%d", v.Pointer(), v.Len(), v.Cap())
		for i := 0; i < v.Len(); i++ {
			c17Ptrs(b, v.Index(i), depth+1)
		}
	case reflect.Struct:
		if v.Type() == timeT {
			return
		}
		for i := 0; i < v.NumField(); i++ {
			c17Ptrs(b, v.Field(i), depth+1)
		}
	case reflect.Map:
		fmt.Fprintf(b, "m%x/%d", v.Pointer(), v.Len())
	}
}

func c17Snap(v reflect.Value) string {
	var b bytes.Buffer
	b.WriteString(c17J(proj(v, true, true)))
	b.WriteByte('#')
	c17Ptrs(&b, v, 0)
	return c17Hash(b.String())
}

// c17AstFP fingerprints the object per location: one entry per field of the SELECT
// (unexported ones included), one for the other statement, one for the statement list.
func c17AstFP(o *c17Obj) map[string]string {
	fp := map[string]string{}
	sv := reflect.ValueOf(o.sel).Elem()
	for i := 0; i < sv.NumField(); i++ {
		fp["ast."+sv.Type().Field(i).Name] = c17Snap(sv.Field(i))
	}
	st := reflect.ValueOf(o.q.Statements)
	fp["ast.stmts"] = fmt.Sprintf("%x/%d/%d/%x", st.Pointer(), st.Len(), st.Cap(), reflect.ValueOf(o.sel).Pointer())
	for i, s := range o.q.Statements {
		if s != influxql.Statement(o.sel) {
			fp[fmt.Sprintf("ast.aux%d", i)] = c17Snap(reflect.ValueOf(s))
		}
	}
	return fp
}

// c17LangFP fingerprints the exported dispatch tree by reflection only (no package call):
// keys, sub-trees, handler function identities.
func c17LangFP() string {
	var b bytes.Buffer
	var walk func(t *influxql.ParseTree, depth int)
	walk = func(t *influxql.ParseTree, depth int) {
		if t == nil || depth > 20 {
			b.WriteString("nil")
			return
		}
		fmt.Fprintf(&b, "{K%d/%d:%q H[", len(t.Keys), cap(t.Keys), t.Keys)
		hk := make([]int, 0, len(t.Handlers))
		for k := range t.Handlers {
			hk = append(hk, int(k))
		}
		sort.Ints(hk)
		for _, k := range hk {
			fmt.Fprintf(&b, "%d=%x,", k, reflect.ValueOf(t.Handlers[influxql.Token(k)]).Pointer())
		}
		b.WriteString("] T[")
		tk := make([]int, 0, len(t.Tokens))
		for k := range t.Tokens {
			tk = append(tk, int(k))
		}
		sort.Ints(tk)
		for _, k := range tk {
			fmt.Fprintf(&b, "%d=", k)
			walk(t.Tokens[influxql.Token(k)], depth+1)
		}
		b.WriteString("]}")
	}
	fmt.Fprintf(&b, "%x", reflect.ValueOf(influxql.Language).Pointer())
	walk(influxql.Language, 0)
	return c17Hash(b.String())
}

var c17Words = func() []string {
	w := []string{"true", "false", "foo", "Select", "TIME", "x_1", ""}
	for t := 0; t < 256; t++ {
		if s := influxql.Token(t).String(); s != "" {
			w = append(w, strings.ToLower(s))
		}
	}
	return w
}()

// c17PkgFP fingerprints the package tables through what is reachable from outside: the
// exported Language tree, Lookup / IdentNeedsQuotes on every token spelling (the keyword
// table), the replacers and the compiled patterns by their behaviour on fixed probes.
func c17PkgFP() map[string]string {
	fp := map[string]string{"Language": c17LangFP()}
	var b strings.Builder
	for _, w := range c17Words {
		fmt.Fprintf(&b, "%s=%d/%v;", w, int(influxql.Lookup(w)), influxql.IdentNeedsQuotes(w))
	}
	fp["keywords"] = c17Hash(b.String())
	b.Reset()
	for _, s := range c17Strings {
		b.WriteString(influxql.QuoteString(s) + ";")
	}
	fp["qsReplacer"] = c17Hash(b.String())
	b.Reset()
	for _, s := range c17Strings {
		b.WriteString(influxql.QuoteIdent(s, s) + ";")
	}
	fp["qiReplacer"] = c17Hash(b.String())
	b.Reset()
	for _, s := range []string{"2020-01-02", "2020-01-02T03:04:05Z", "2020-01-02 03:04", "20200102", "x2020-01-02", "2020-1-2", ""} {
		fmt.Fprintf(&b, "%v;", (&influxql.StringLiteral{Val: s}).IsTimeLiteral())
	}
	fp["datePatterns"] = c17Hash(b.String())
	b.Reset()
	for _, s := range c17Sanit {
		b.WriteString(influxql.Sanitize(s) + ";")
	}
	fp["sanitizePatterns"] = c17Hash(b.String())
	return fp
}

func c17Diff(a, b map[string]string) []interface{} {
	names := map[string]bool{}
	for k, v := range a {
		if b[k] != v {
			names[k] = true
		}
	}
	for k := range b {
		if _, ok := a[k]; !ok {
			names[k] = true
		}
	}
	out := make([]string, 0, len(names))
	for k := range names {
		out = append(out, k)
	}
	sort.Strings(out)
	r := make([]interface{}, len(out))
	for i, s := range out {
		r[i] = s
	}
	return r
}

// ---------------------------------------------------------------- race log

var c17RaceOn = func() int {
	if bi, ok := debug.ReadBuildInfo(); ok {
		for _, s := range bi.Settings {
			if s.Key == "-race" && s.Value == "true" {
				return 1
			}
		}
	}
	return 0
}()

func c17LogPath() string {
	p := os.Getenv("C17_RACELOG")
	if p == "" {
		return ""
	}
	return fmt.Sprintf("%s.%d", p, os.Getpid())
}

func c17LogSize() int64 {
	p := c17LogPath()
	if p == "" {
		return 0
	}
	st, err := os.Stat(p)
	if err != nil {
		return 0
	}
	return st.Size()
}

var c17AccessRe = regexp.MustCompile(`^(Previous )?(Write|Read|read|write|Atomic write|Atomic read|atomic write|atomic read) at 0x[0-9a-f]+ by `)

// c17NewReports reads what the detector wrote since `from` and extracts, for the first
// report, the innermost frame of the package under test in each of the two access stacks.
func c17NewReports(from int64) (n int, sig string, text string) {
	p := c17LogPath()
	if p == "" {
		return 0, "", ""
	}
	f, err := os.Open(p)
	if err != nil {
		return 0, "", ""
	}
	defer f.Close()
	if _, err := f.Seek(from, 0); err != nil {
		return 0, "", ""
	}
	var buf bytes.Buffer
	buf.ReadFrom(f)
	s := buf.String()
	n = strings.Count(s, "WARNING: DATA RACE")
	if n == 0 {
		return 0, "", ""
	}
	var frames []string
	lines := strings.Split(s, "\n")
	reports := 0
	for i := 0; i < len(lines); i++ {
		if strings.HasPrefix(lines[i], "WARNING: DATA RACE") {
			reports++
			if reports > 1 {
				break
			}
		}
		if c17AccessRe.MatchString(lines[i]) {
			fr := "?"
			for j := i + 1; j < len(lines) && strings.TrimSpace(lines[j]) != ""; j++ {
				l := strings.TrimSpace(lines[j])
				if k := strings.Index(l, "github.com/influxdata/influxql."); k == 0 {
					fr = strings.TrimSuffix(strings.TrimPrefix(l, "github.com/influxdata/influxql."), "()")
					break
				}
			}
			frames = append(frames, fr)
		}
	}
	sort.Strings(frames)
	sig = strings.Join(frames, "|")
	if len(s) > 1500 {
		s = s[:1500]
	}
	return n, sig, s
}

// ---------------------------------------------------------------- cases

var c17Sink int // target of the deliberate race of the self-test

func c17Selftest() M {
	from := c17LogSize()
	var wg sync.WaitGroup
	start := make(chan struct{})
	for t := 0; t < 2; t++ {
		wg.Add(1)
		go func(t int) {
			defer wg.Done()
			<-start
			for i := 0; i < 100; i++ {
				c17Sink += t
			}
		}(t)
	}
	close(start)
	wg.Wait()
	n, _, _ := c17NewReports(from)
	return M{"races": n, "race_on": c17RaceOn}
}

func c17Names(c M) []*c17Op {
	var ops []*c17Op
	for _, x := range list(c["ops"]) {
		op := c17OpByName[str(x)]
		if op == nil {
			panic("c17: unknown operation " + str(x))
		}
		ops = append(ops, op)
	}
	if len(ops) == 0 {
		panic("c17: case without operations")
	}
	return ops
}

// c17Unordered runs op once on each of g goroutines that nothing orders (one of them starts
// late, so that the calls need not overlap in time for the detector to relate them).
func c17Unordered(op *c17Op, o *c17Obj, in c17In, g int) []string {
	res := make([]string, g)
	var wg sync.WaitGroup
	start := make(chan struct{})
	for t := 0; t < g; t++ {
		wg.Add(1)
		go func(t int) {
			defer wg.Done()
			<-start
			if t == g-1 {
				time.Sleep(2 * time.Millisecond)
			}
			res[t] = c17Hash(c17Call(op, o, in))
		}(t)
	}
	close(start)
	wg.Wait()
	return res
}

func c17Alone(c M) M {
	op := c17Names(c)[0]
	in := c17In{num(c["stmt"]), num(c["aux"]), 8 * num(c["id"])}
	o := c17Build(in)
	a0, p0 := c17AstFP(o), c17PkgFP()
	r1 := c17Hash(c17Call(op, o, in))
	a1, p1 := c17AstFP(o), c17PkgFP()
	writes := append(c17Diff(a0, a1), c17Diff(p0, p1)...)
	r2 := c17Hash(c17Call(op, o, in))
	twin := c17Hash(c17Call(op, c17Build(in), in))
	// the same call on unordered goroutines, under the detector, with inputs not used before;
	// their twin is computed afterwards
	in2 := in
	in2.n++
	o2 := c17Build(in2)
	from := c17LogSize()
	got := c17Unordered(op, o2, in2, 3)
	n, sig, text := c17NewReports(from)
	twin2 := c17Hash(c17Call(op, c17Build(in2), in2))
	ceq := 1
	for _, h := range got {
		if h != twin2 {
			ceq = 0
		}
	}
	out := M{"op": op.name, "writes": writes, "again_equal": b2i(r2 == r1), "twin_equal": b2i(r1 == twin),
		"confirm_races": n, "confirm_equal": ceq, "race_on": c17RaceOn}
	if n > 0 {
		out["race_sig"], out["race_text"] = sig, text
	}
	return out
}

func b2i(b bool) int {
	if b {
		return 1
	}
	return 0
}

func c17Sched(c M) M {
	ops := c17Names(c)
	in := c17In{num(c["stmt"]), num(c["aux"]), 8 * num(c["id"])}
	g, reps := num(c["g"]), num(c["reps"])
	if g < 2 {
		g = 2
	}
	if g > 8 {
		g = 8
	}
	if reps < 1 {
		reps = 1
	}
	cold := num(c["cold"]) == 1
	sharing := str(c["sharing"])
	build := func() *c17Obj {
		if cold {
			return c17ColdObj(in)
		}
		return c17Build(in)
	}
	twin := map[string]string{}
	twins := func() {
		for _, op := range ops {
			if _, ok := twin[op.name]; !ok {
				twin[op.name] = c17Hash(c17Call(op, build(), in))
			}
		}
	}
	shared := build()
	objs := make([]*c17Obj, g)
	for t := range objs {
		if sharing == "private" {
			objs[t] = build()
		} else {
			objs[t] = shared
		}
	}
	var a0 map[string]string
	if !cold {
		a0 = c17AstFP(shared)
	}
	l0 := c17LangFP()
	from := c17LogSize()
	got := make([][]string, g)
	var wg sync.WaitGroup
	start := make(chan struct{})
	for t := 0; t < g; t++ {
		wg.Add(1)
		go func(t int) {
			defer wg.Done()
			op, o := ops[t%len(ops)], objs[t]
			var mine []string
			<-start
			for r := 0; r < reps; r++ {
				h := c17Hash(c17Call(op, o, in))
				dup := false
				for _, x := range mine {
					if x == h {
						dup = true
					}
				}
				if !dup {
					mine = append(mine, h)
				}
			}
			got[t] = mine
		}(t)
	}
	close(start)
	wg.Wait()
	n, sig, text := c17NewReports(from)
	l1 := c17LangFP()
	// each call made alone, on its own fresh AST - AFTER the concurrent run, so that the concurrent
	// calls are the first to see these inputs (and, in a cold case, the first use of the package)
	twins()
	res := make([]interface{}, g)
	for t := 0; t < g; t++ {
		op := ops[t%len(ops)]
		gl := make([]interface{}, len(got[t]))
		for i, h := range got[t] {
			gl[i] = h
		}
		res[t] = M{"op": op.name, "twin": twin[op.name], "got": gl}
	}
	out := M{"res": res, "races": n, "lang_changed": b2i(l0 != l1), "race_on": c17RaceOn}
	if a0 != nil {
		out["ast_changed"] = c17Diff(a0, c17AstFP(shared))
	} else {
		out["ast_changed"] = []interface{}{}
	}
	if n > 0 {
		out["race_sig"], out["race_text"] = sig, text
	}
	return out
}

// c17Journal appends one line to $C17_JOURNAL: "B <id>" when a case starts, the complete
// record when it has returned.  If the runtime kills the process in the middle of a schedule
// (fatal error: concurrent map writes cannot be recovered), the journal tells which one.
func c17Journal(line string) {
	p := os.Getenv("C17_JOURNAL")
	if p == "" {
		return
	}
	f, err := os.OpenFile(p, os.O_APPEND|os.O_CREATE|os.O_WRONLY, 0o644)
	if err != nil {
		return
	}
	f.WriteString(line + "\n")
	f.Close()
}

func init() {
	register("c17", &Suite{Serial: true, Run: func(c M) M {
		c17Journal("B " + str(c["id"]))
		var o M
		switch str(c["kind"]) {
		case "selftest":
			o = c17Selftest()
		case "alone":
			o = c17Alone(c)
		case "sched":
			o = c17Sched(c)
		default:
			panic("c17: unknown case kind " + str(c["kind"]))
		}
		rec := M{}
		for k, v := range c {
			rec[k] = v
		}
		rec["obs"] = o
		c17Journal(c17J(rec))
		return o
	}})
}
