package main

import (
	"go/ast"
	"go/parser"
	"go/token"
	"os"
	"path/filepath"
	"sort"
	"strconv"
	"strings"
)

// Suite "dict": the source dictionary.  Every string, character and integer constant written in
// the non-test Go sources of the package under test (VERIF_REPO_DIR) is harvested with go/parser.
// The generators that take a DICT_FILE place these words where a statement takes a name, a string
// value or a number: code that treats one particular value specially has to spell that value in
// its source, so the value is in the dictionary of the very tree that is being checked.
// Nothing is judged here; the words are data for the TLA+ generators.
//
//	vdrive dict - words.ndjson            one record {w, k} per word, k = "str" | "int"
func sourceDict() []M {
	root := os.Getenv("VERIF_REPO_DIR")
	if root == "" {
		root = "/repo"
	}
	files, _ := filepath.Glob(filepath.Join(root, "*.go"))
	sort.Strings(files)
	seen := map[string]bool{}
	var out []M
	add := func(k, w string) {
		if seen[k+":"+w] {
			return
		}
		seen[k+":"+w] = true
		out = append(out, M{"w": w, "k": k})
	}
	for _, f := range files {
		if strings.HasSuffix(f, "_test.go") {
			continue
		}
		fs := token.NewFileSet()
		af, err := parser.ParseFile(fs, f, nil, 0)
		if err != nil {
			continue
		}
		ast.Inspect(af, func(n ast.Node) bool {
			if imp, ok := n.(*ast.ImportSpec); ok && imp != nil {
				return false
			}
			bl, ok := n.(*ast.BasicLit)
			if !ok {
				return true
			}
			switch bl.Kind {
			case token.STRING:
				s, err := strconv.Unquote(bl.Value)
				if err != nil || !dictWord(s) {
					return true
				}
				add("str", s)
				if l := strings.ToLower(s); l != s {
					add("str", l) // keyword tables are written in upper case, names compare in lower case
				}
			case token.CHAR:
				s, err := strconv.Unquote(bl.Value)
				if err == nil && dictWord(s) {
					add("str", s)
				}
			case token.INT:
				v, err := strconv.ParseUint(bl.Value, 0, 64)
				if err == nil && v <= 1<<31-2 {
					for _, d := range []uint64{v, v + 1} {
						add("int", strconv.FormatUint(d, 10))
					}
					if v > 0 {
						add("int", strconv.FormatUint(v-1, 10))
					}
				}
			}
			return true
		})
	}
	return out
}

// dictWord: printable ASCII, 1..24 characters, no format verbs with arguments (messages)
func dictWord(s string) bool {
	if len(s) == 0 || len(s) > 24 {
		return false
	}
	for i := 0; i < len(s); i++ {
		if s[i] < 0x20 || s[i] > 0x7e {
			return false
		}
	}
	return true
}

func init() {
	register("dict", &Suite{Run: func(c M) M { return M{} }})
	suites["dict"].Gen = func(args []string, emit func(M)) {
		for _, w := range sourceDict() {
			emit(w)
		}
	}
}
