package main

import (
	"fmt"
	"math/big"
	"math/rand"
	"strconv"
	"strings"
	"time"

	"github.com/influxdata/influxql"
)

// c08: durations.  The suites record what ParseDuration / FormatDuration / ParseStatement did
// with a generated spelling or value; every number is written as a decimal string.  Nothing is
// compared here: the verdicts are computed by spec/c08/Judge_c08.tla.
//
//	k = "parse"   ParseDuration(text); text = ['-'] n1 u1 n2 u2 ... from "comps" (or "text" as is)
//	k = "stmt"    the spelling replaces the token {"t":"dur","s":"@"} of "toks"; ParseStatement;
//	              the duration found at the literal's place ("ctx" says where) is recorded
//	k = "format"  FormatDuration(d), ParseDuration of the result, and for all 8 units the
//	              certificate d = q*u + r as computed by Go's / and %
//
// Unit names are ASCII in the cases: "mu" is the micro sign U+00B5.

const c08Micro = "µ"

var c08Units = []struct {
	name string
	mult int64
}{
	{"w", int64(7 * 24 * time.Hour)}, {"d", int64(24 * time.Hour)}, {"h", int64(time.Hour)}, {"m", int64(time.Minute)},
	{"s", int64(time.Second)}, {"ms", int64(time.Millisecond)}, {"u", int64(time.Microsecond)}, {"ns", 1},
}

func c08Spell(c M) string {
	comps := list(c["comps"])
	if comps == nil {
		return str(c["text"])
	}
	var b strings.Builder
	if neg, _ := c["neg"].(bool); neg {
		b.WriteByte('-')
	}
	for _, x := range comps {
		m := obj(x)
		b.WriteString(str(m["n"]))
		u := str(m["u"])
		if u == "mu" {
			u = c08Micro
		}
		b.WriteString(u)
	}
	return b.String()
}

func c08Parse(c M) M {
	text := c08Spell(c)
	o := M{"text": text}
	var d time.Duration
	var err error
	if p := guard(func() { d, err = influxql.ParseDuration(text) }); p != "" {
		o["panic"] = p
		return o
	}
	if err != nil {
		o["err"] = errStr(err)
		c08Again(o, text)
		return o
	}
	o["val"] = strconv.FormatInt(int64(d), 10)
	c08Again(o, text)
	return o
}

// c08Again: a history in one process - the same magnitude with the other sign is parsed, then the text once more.
// What ParseDuration answers for a text is recorded a second time ("again"); the judge requires the two answers to agree.
func c08Again(o M, text string) {
	flipped := "-" + text
	if strings.HasPrefix(text, "-") {
		flipped = text[1:]
	}
	var d2 time.Duration
	var err2 error
	if p := guard(func() {
		influxql.ParseDuration(flipped)
		d2, err2 = influxql.ParseDuration(text)
	}); p != "" {
		o["again"] = M{"panic": p}
		return
	}
	if err2 != nil {
		o["again"] = M{"err": errStr(err2)}
		return
	}
	o["again"] = M{"val": strconv.FormatInt(int64(d2), 10)}
}

func c08Format(c M) M {
	o := M{}
	n, err := strconv.ParseInt(str(c["d"]), 10, 64)
	if err != nil {
		o["harness_err"] = "case value is no int64: " + str(c["d"])
		return o
	}
	d := time.Duration(n)
	certs := make([]interface{}, 0, len(c08Units))
	for _, u := range c08Units {
		certs = append(certs, M{"u": u.name, "q": strconv.FormatInt(n/u.mult, 10), "r": strconv.FormatInt(n%u.mult, 10)})
	}
	o["certs"] = certs
	var s string
	if p := guard(func() { s = influxql.FormatDuration(d) }); p != "" {
		o["panic"] = p
		return o
	}
	o["text"] = s
	o["atext"] = strings.Replace(s, c08Micro, "mu", -1)
	var back time.Duration
	if p := guard(func() { back, err = influxql.ParseDuration(s) }); p != "" {
		o["panic"] = p
		return o
	}
	if err != nil {
		o["backerr"] = errStr(err)
		return o
	}
	o["back"] = strconv.FormatInt(int64(back), 10)
	return o
}

// c08Literal returns the duration standing at the place of the generated literal.
func c08Literal(ctx string, st influxql.Statement) (time.Duration, string) {
	lit := func(e influxql.Expr) (time.Duration, string) {
		if l, ok := e.(*influxql.DurationLiteral); ok {
			return l.Val, ""
		}
		return 0, fmt.Sprintf("no duration literal but %T", e)
	}
	ptr := func(p *time.Duration) (time.Duration, string) {
		if p == nil {
			return 0, "duration field not set"
		}
		return *p, ""
	}
	dim := func(s *influxql.SelectStatement, arg int) (time.Duration, string) {
		if s == nil || len(s.Dimensions) != 1 {
			return 0, "no single dimension"
		}
		call, ok := s.Dimensions[0].Expr.(*influxql.Call)
		if !ok || len(call.Args) <= arg {
			return 0, "dimension is no call with enough arguments"
		}
		return lit(call.Args[arg])
	}
	sub := func(cond influxql.Expr) (time.Duration, string) {
		c, ok := cond.(*influxql.BinaryExpr)
		if !ok {
			return 0, "condition is no binary expression"
		}
		inner, ok := c.RHS.(*influxql.BinaryExpr)
		if !ok {
			return 0, fmt.Sprintf("right operand is %T", c.RHS)
		}
		return lit(inner.RHS)
	}
	switch s := st.(type) {
	case *influxql.DeleteSeriesStatement:
		if ctx == "del_wh" {
			return sub(s.Condition)
		}
	case *influxql.ShowTagValuesStatement:
		if ctx == "stv_wh" {
			return sub(s.Condition)
		}
	case *influxql.CreateRetentionPolicyStatement:
		switch ctx {
		case "crp_dur":
			return s.Duration, ""
		case "crp_shard":
			return s.ShardGroupDuration, ""
		case "crp_future":
			return s.FutureWriteLimit, ""
		case "crp_past":
			return s.PastWriteLimit, ""
		}
	case *influxql.AlterRetentionPolicyStatement:
		switch ctx {
		case "arp_dur":
			return ptr(s.Duration)
		case "arp_shard":
			return ptr(s.ShardGroupDuration)
		case "arp_future":
			return ptr(s.FutureWriteLimit)
		case "arp_past":
			return ptr(s.PastWriteLimit)
		}
	case *influxql.CreateDatabaseStatement:
		switch ctx {
		case "cdb_dur":
			return ptr(s.RetentionPolicyDuration)
		case "cdb_shard":
			return s.RetentionPolicyShardGroupDuration, ""
		case "cdb_future":
			return ptr(s.FutureWriteLimit)
		case "cdb_past":
			return ptr(s.PastWriteLimit)
		}
	case *influxql.CreateContinuousQueryStatement:
		switch ctx {
		case "cq_every":
			return s.ResampleEvery, ""
		case "cq_for":
			return s.ResampleFor, ""
		case "cq_gb":
			return dim(s.Source, 0)
		}
	case *influxql.SelectStatement:
		switch ctx {
		case "gb_time":
			return dim(s, 0)
		case "gb_off":
			return dim(s, 1)
		case "fn_arg":
			if len(s.Fields) != 1 {
				return 0, "no single field"
			}
			call, ok := s.Fields[0].Expr.(*influxql.Call)
			if !ok || len(call.Args) != 2 {
				return 0, "field is no call with two arguments"
			}
			return lit(call.Args[1])
		}
		cond, ok := s.Condition.(*influxql.BinaryExpr)
		if !ok {
			return 0, "condition is no binary expression"
		}
		switch ctx {
		case "wh_sub", "wh_add":
			return sub(s.Condition)
		case "wh_neg", "wh_negsp", "wh_pos":
			return lit(cond.RHS)
		}
	}
	return 0, fmt.Sprintf("context %q does not fit %T", ctx, st)
}

func c08Stmt(c M) M {
	spelling := c08Spell(M{"comps": c["comps"]})
	var text string
	if toks := list(c["toks"]); toks != nil {
		cp := make([]interface{}, len(toks))
		for i, x := range toks {
			t := obj(x)
			if str(t["t"]) == "dur" && str(t["s"]) == "@" {
				t2 := M{}
				for k, v := range t {
					t2[k] = v
				}
				t2["s"] = spelling
				cp[i] = t2
			} else {
				cp[i] = x
			}
		}
		text = render(cp)
	} else {
		text = str(c["text"])
	}
	o := M{"text": text, "lit": spelling}
	var st influxql.Statement
	var err error
	if p := guard(func() { st, err = influxql.ParseStatement(text) }); p != "" {
		o["panic"] = p
		return o
	}
	if err != nil {
		o["err"] = errStr(err)
		return o
	}
	var d time.Duration
	var shape string
	if p := guard(func() { d, shape = c08Literal(str(c["ctx"]), st) }); p != "" {
		o["harness_panic"] = p
		return o
	}
	if shape != "" {
		o["shape"] = shape
		return o
	}
	o["val"] = strconv.FormatInt(int64(d), 10)
	// printed form, recorded for the report only (printing of statements is C02's subject)
	_ = guard(func() { o["str"] = st.String() })
	return o
}

func c08Run(c M) M {
	switch str(c["k"]) {
	case "parse":
		return c08Parse(c)
	case "format":
		return c08Format(c)
	case "stmt":
		return c08Stmt(c)
	}
	return M{"harness_err": "unknown kind " + str(c["k"])}
}

// c08Rand: seeded random spellings and values (args: <number of spellings> <number of values>).
// The generator knows the overflow boundaries only to aim at them; it predicts nothing.
func c08Rand(args []string, emit func(M)) {
	np, nf := 2000, 2000
	if len(args) > 0 {
		np, _ = strconv.Atoi(args[0])
	}
	if len(args) > 1 {
		nf, _ = strconv.Atoi(args[1])
	}
	rng := rand.New(rand.NewSource(seed()*7919 + 8))
	spell := []string{"ns", "u", "mu", "ms", "s", "m", "h", "d", "w"}
	mult := map[string]int64{"ns": 1, "u": 1e3, "mu": 1e3, "ms": 1e6, "s": 1e9, "m": 60e9, "h": 3600e9, "d": 86400e9, "w": 604800e9}
	randBits := func(maxBits int) *big.Int {
		bits := rng.Intn(maxBits + 1)
		if bits == 0 {
			return big.NewInt(0)
		}
		return new(big.Int).Rand(rng, new(big.Int).Lsh(big.NewInt(1), uint(bits)))
	}
	p63 := new(big.Int).Lsh(big.NewInt(1), 63)
	for i := 0; i < np; i++ {
		n := 1 + rng.Intn(4)
		comps := make([]interface{}, 0, n)
		mode := rng.Intn(4)
		// mode 0: free numerals; 1: total aimed at a multiple of 2^63; 2: small; 3: one huge, rest small
		target := new(big.Int).Mul(p63, big.NewInt(int64(1+rng.Intn(4))))
		target.Add(target, big.NewInt(int64(rng.Intn(7)-3)))
		sum := new(big.Int)
		for j := 0; j < n; j++ {
			u := spell[rng.Intn(len(spell))]
			var v *big.Int
			switch {
			case mode == 1 && j == n-1:
				// last component closes the gap to the target as well as its unit allows
				rest := new(big.Int).Sub(target, sum)
				if rest.Sign() < 0 {
					rest.SetInt64(0)
				}
				v = rest.Div(rest, big.NewInt(mult[u]))
				if rng.Intn(2) == 0 {
					v.Add(v, big.NewInt(int64(rng.Intn(3))))
				}
			case mode == 1:
				q := new(big.Int).Div(target, big.NewInt(mult[u]))
				v = new(big.Int).Rand(rng, q.Add(q, big.NewInt(1)))
				if rng.Intn(2) == 0 {
					v.Rsh(v, uint(rng.Intn(20)))
				}
			case mode == 2 || (mode == 3 && j > 0):
				v = randBits(12)
			default:
				v = randBits(66)
			}
			sum.Add(sum, new(big.Int).Mul(v, big.NewInt(mult[u])))
			txt := v.String()
			if rng.Intn(10) == 0 {
				txt = strings.Repeat("0", 1+rng.Intn(3)) + txt
			}
			comps = append(comps, M{"n": txt, "u": u})
		}
		emit(M{"k": "parse", "fam": "rand", "neg": rng.Intn(3) == 0, "comps": comps})
	}
	for i := 0; i < nf; i++ {
		var v int64
		switch rng.Intn(3) {
		case 0:
			v = int64(rng.Uint64())
		case 1:
			v = int64(rng.Uint64() >> uint(rng.Intn(64)))
		default:
			u := c08Units[rng.Intn(len(c08Units))].mult
			lim := int64(1<<63-1) / u
			q := rng.Int63n(lim) + 1
			if rng.Intn(2) == 0 {
				q >>= uint(rng.Intn(63))
			}
			v = q * u
		}
		if rng.Intn(2) == 0 && v != -1<<63 {
			v = -v
		}
		emit(M{"k": "format", "fam": "rand", "d": strconv.FormatInt(v, 10)})
	}
}

func init() {
	register("c08", &Suite{Run: c08Run})
	register("c08parse", &Suite{Run: c08Run})
	register("c08format", &Suite{Run: c08Run})
	register("c08stmt", &Suite{Run: c08Run})
	register("c08rand", &Suite{Run: c08Run, Gen: c08Rand})
}
