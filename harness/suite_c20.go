package main

import (
	"sync"

	"github.com/influxdata/influxql"
)

// c20: parse a SELECT, apply the time options the case names (OmitTime / TimeAlias are exported
// fields, RewriteTimeFields is the method that turns a `time AS t` field into the alias), call
// ColumnNames three times, parse the same text afresh and call it once more, and ask the real
// code for the name of every output column's expression standing alone ("solo").
// Nothing is judged here.

var c20SoloCache sync.Map // text -> []interface{} | string (error)

func c20Strings(a []string) []interface{} {
	out := make([]interface{}, 0, len(a))
	for _, s := range a {
		out = append(out, s)
	}
	return out
}

func c20Parse(text string, c M) (*influxql.SelectStatement, string) {
	st, err := influxql.ParseStatement(text)
	if err != nil {
		return nil, errStr(err)
	}
	s, ok := st.(*influxql.SelectStatement)
	if !ok {
		return nil, "(not a SELECT)"
	}
	if b, _ := c["rewrite"].(bool); b {
		s.RewriteTimeFields()
	}
	if b, _ := c["omit"].(bool); b {
		s.OmitTime = true
	}
	if a := str(c["talias"]); a != "" {
		s.TimeAlias = a
	}
	return s, ""
}

// c20Solo returns ColumnNames (time omitted) of `SELECT <expr> FROM m`.
func c20Solo(expr string) (names []interface{}, errText string) {
	if v, ok := c20SoloCache.Load(expr); ok {
		if e, isErr := v.(string); isErr {
			return nil, e
		}
		return v.([]interface{}), ""
	}
	defer func() {
		if errText != "" {
			c20SoloCache.Store(expr, errText)
		} else {
			c20SoloCache.Store(expr, names)
		}
	}()
	st, err := influxql.ParseStatement("SELECT " + expr + " FROM m")
	if err != nil {
		return nil, errStr(err)
	}
	s, ok := st.(*influxql.SelectStatement)
	if !ok {
		return nil, "(not a SELECT)"
	}
	s.OmitTime = true
	var cols []string
	if p := guard(func() { cols = s.ColumnNames() }); p != "" {
		return nil, "panic: " + p
	}
	return c20Strings(cols), ""
}

func init() {
	register("c20", &Suite{Run: func(c M) M {
		text := caseText(c)
		o := M{"text": text}
		delete(c, "toks")
		var s *influxql.SelectStatement
		var perr string
		if p := guard(func() { s, perr = c20Parse(text, c) }); p != "" {
			o["parse_panic"] = p
			return o
		}
		if perr != "" {
			o["perr"] = perr
			return o
		}
		var str0, str1 string
		if p := guard(func() { str0 = s.String() }); p != "" {
			o["panic"] = "String: " + p
			return o
		}
		for _, k := range []string{"c1", "c2", "c3"} {
			var cols []string
			if p := guard(func() { cols = s.ColumnNames() }); p != "" {
				o["panic"] = p
				return o
			}
			o[k] = c20Strings(cols)
		}
		if p := guard(func() { str1 = s.String() }); p != "" {
			o["panic"] = "String: " + p
			return o
		}
		o["str0"], o["str1"] = str0, str1
		var s4 *influxql.SelectStatement
		if p := guard(func() { s4, perr = c20Parse(text, c) }); p != "" || perr != "" {
			o["perr"] = "second parse: " + p + perr
			return o
		}
		var cols4 []string
		if p := guard(func() { cols4 = s4.ColumnNames() }); p != "" {
			o["panic"] = p
			return o
		}
		o["c4"] = c20Strings(cols4)
		solo := make([]interface{}, 0, 8)
		for _, x := range list(c["sx"]) {
			names, e := c20Solo(render(list(x)))
			if e != "" {
				o["solo_err"] = e
				return o
			}
			solo = append(solo, names)
		}
		o["solo"] = solo
		return o
	}})
}
