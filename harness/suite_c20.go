package main

import (
	"sync"

	"github.com/influxdata/influxql"
)

// c20: parse a SELECT, apply the time options the case names (OmitTime / TimeAlias are exported
// fields, RewriteTimeFields is the method that turns a `time AS t` field into the alias), call
// ColumnNames three times, parse the same text afresh and call it once more, and ask the real
// code for the name of every output column's expression standing alone ("solo").
// Nothing is judged here.

var c20SoloCache sync.Map // text -> []interface{} | string (error)

func c20Strings(a []string) []interface{} {
	out := make([]interface{}, 0, len(a))
	for _, s := range a {
		out = append(out, s)
	}
	return out
}

func c20Parse(text string, c M) (*influxql.SelectStatement, string) {
	st, err := influxql.ParseStatement(text)
	if err != nil {
		return nil, errStr(err)
	}
	s, ok := st.(*influxql.SelectStatement)
	if !ok {
		return nil, "(not a SELECT)"
	}
	if b, _ := c["rewrite"].(bool); b {
		s.RewriteTimeFields()
	}
	if b, _ := c["omit"].(bool); b {
		s.OmitTime = true
	}
	if a := str(c["talias"]); a != "" {
		s.TimeAlias = a
	}
	return s, ""
}

// c20Solo returns ColumnNames (time omitted) of `SELECT <expr> FROM m`.
func c20Solo(expr string) (names []interface{}, errText string) {
	if v, ok := c20SoloCache.Load(expr); ok {
		if e, isErr := v.(string); isErr {
			return nil, e
		}
		return v.([]interface{}), ""
	}
	defer func() {
		if errText != "" {
			c20SoloCache.Store(expr, errText)
		} else {
			c20SoloCache.Store(expr, names)
		}
	}()
	st, err := influxql.ParseStatement("SELECT " + expr + " FROM m")
	if err != nil {
		return nil, errStr(err)
	}
	s, ok := st.(*influxql.SelectStatement)
	if !ok {
		return nil, "(not a SELECT)"
	}
	s.OmitTime = true
	var cols []string
	if p := guard(func() { cols = s.ColumnNames() }); p != "" {
		return nil, "panic: " + p
	}
	return c20Strings(cols), ""
}

func init() {
	register("c20", &Suite{Run: func(c M) M {
		text := caseText(c)
		o := M{"text": text}
		delete(c, "toks")
		var s *influxql.SelectStatement
		var perr string
		if p := guard(func() { s, perr = c20Parse(text, c) }); p != "" {
			o["parse_panic"] = p
			return o
		}
		if perr != "" {
			o["perr"] = perr
			return o
		}
		var str0, str1 string
		if p := guard(func() { str0 = s.String() }); p != "" {
			o["panic"] = "String: " + p
			return o
		}
		var kept []string // the first answer itself, looked at again at the end of the history
		for _, k := range []string{"c1", "c2", "c3"} {
			var cols []string
			if p := guard(func() { cols = s.ColumnNames() }); p != "" {
				o["panic"] = p
				return o
			}
			o[k] = c20Strings(cols)
			if k == "c1" {
				kept = cols
			}
		}
		if p := guard(func() { str1 = s.String() }); p != "" {
			o["panic"] = "String: " + p
			return o
		}
		o["str0"], o["str1"] = str0, str1
		var s4 *influxql.SelectStatement
		if p := guard(func() { s4, perr = c20Parse(text, c) }); p != "" || perr != "" {
			o["perr"] = "second parse: " + p + perr
			return o
		}
		var cols4 []string
		if p := guard(func() { cols4 = s4.ColumnNames() }); p != "" {
			o["panic"] = p
			return o
		}
		o["c4"] = c20Strings(cols4)
		solo := make([]interface{}, 0, 8)
		for _, x := range list(c["sx"]) {
			names, e := c20Solo(render(list(x)))
			if e != "" {
				o["solo_err"] = e
				return o
			}
			solo = append(solo, names)
		}
		o["solo"] = solo
		// a history: the statement (named three times by now) is edited in place - every reference in the field list gets
		// another name - and asked again; the answer must be that of the edited statement parsed afresh from its own text
		if rw, _ := c["rewrite"].(bool); !rw {
			if p := guard(func() {
				for _, f := range s.Fields {
					f.Expr = influxql.RewriteExpr(f.Expr, func(e influxql.Expr) influxql.Expr {
						if ref, ok := e.(*influxql.VarRef); ok {
							return &influxql.VarRef{Val: ref.Val + "q", Type: ref.Type}
						}
						return e
					})
				}
			}); p != "" {
				o["edit_panic"] = p
				return o
			}
			var cols5, cols6 []string
			var s6 *influxql.SelectStatement
			if p := guard(func() { cols5 = s.ColumnNames() }); p != "" {
				o["panic"] = "after edit: " + p
				return o
			}
			edited := s.String()
			if p := guard(func() { s6, perr = c20Parse(edited, c) }); p != "" || perr != "" {
				o["edit_perr"] = p + perr
				return o
			}
			if p := guard(func() { cols6 = s6.ColumnNames() }); p != "" {
				o["panic"] = "edited, fresh: " + p
				return o
			}
			o["c5"], o["c6"], o["edited"] = c20Strings(cols5), c20Strings(cols6), edited
		}
		// ... and so are a clone's names after ITS fields were renamed; the first answer is still what it was
		if p := guard(func() {
			cl := s.Clone()
			for _, f := range cl.Fields {
				f.Alias = "zz" + f.Alias
			}
			cl.OmitTime = !cl.OmitTime
			_ = cl.ColumnNames()
		}); p != "" {
			o["panic"] = "clone: " + p
			return o
		}
		o["c1_later"] = c20Strings(kept)
		// rewrites that change the form, not the columns: DISTINCT x -> distinct(x); RewriteTimeFields once more (there is
		// no time field left to remove), on a fresh parse and on a clone of the statement
		for _, h := range []struct {
			key string
			f   func() []string
		}{
			{"c7", func() []string { t, _ := c20Parse(text, c); t.RewriteDistinct(); return t.ColumnNames() }},
			{"c8", func() []string { t, _ := c20Parse(text, c); t.RewriteTimeFields(); return t.ColumnNames() }},
			{"c9", func() []string { t, _ := c20Parse(text, c); cl := t.Clone(); cl.RewriteTimeFields(); return cl.ColumnNames() }},
		} {
			var cols []string
			if p := guard(func() { cols = h.f() }); p != "" {
				o["panic"] = h.key + ": " + p
				return o
			}
			o[h.key] = c20Strings(cols)
		}
		return o
	}})
}
