package main

import (
	"fmt"
	"math"
	"math/big"
	"strconv"
	"strings"
	"time"

	"github.com/influxdata/influxql"
)

// c09: constant folding preserves value.  A case carries an expression tree (AST record in
// the projection's normal form; NumberLiteral as significand m and binary exponent e), a list
// of bindings [n, val, at] (at = 1: given to Reduce, at = 2: given to the evaluator only) and
// optional counterfactual trees ("alts").  The suite builds the expression (directly, or by
// rendering text and calling ParseExpr when via = "text"), and records
//
//	ast0   the expression as built / parsed (str0: its String())
//	v0     ValuerEval{all bindings, IntegerFloatDivision}.Eval(expression)
//	red    Reduce(expression, MapValuer(bindings at 1))      red2  Reduce(red, same valuer)
//	v1     ValuerEval{bindings at 2, IntegerFloatDivision}.Eval(red)
//
// and red / v1 for every alt tree.  In the time family the valuer also is a NowValuer and only
// the folded node is recorded.  A case of the zone slice carries a valuer composition tree "vt"
// ({k: map} | {k: now, now: bool [, off: minutes east]} | {k: multi, ms: [...]}): the valuer given
// to Reduce is built from it with the real MapValuer / NowValuer / MultiValuer (time.FixedZone
// locations, no tzdata); with "plain" (= / != between two strings) the two evaluations are
// recorded as well.  Nothing is compared here.
func init() {
	register("c09", &Suite{Run: c09run})
}

var c09ops = map[string]influxql.Token{
	"+": influxql.ADD, "-": influxql.SUB, "*": influxql.MUL, "/": influxql.DIV, "%": influxql.MOD,
	"&": influxql.BITWISE_AND, "|": influxql.BITWISE_OR, "^": influxql.BITWISE_XOR,
	"AND": influxql.AND, "OR": influxql.OR,
	"=": influxql.EQ, "!=": influxql.NEQ, "<": influxql.LT, "<=": influxql.LTE, ">": influxql.GT, ">=": influxql.GTE,
}

// c09build builds the Go AST for a tree record.
func c09build(n M) (influxql.Expr, error) {
	if n == nil {
		return nil, fmt.Errorf("missing node")
	}
	switch k := str(n["k"]); k {
	case "BinaryExpr":
		op, ok := c09ops[str(n["Op"])]
		if !ok {
			return nil, fmt.Errorf("unknown operator %q", str(n["Op"]))
		}
		l, err := c09build(obj(n["LHS"]))
		if err != nil {
			return nil, err
		}
		r, err := c09build(obj(n["RHS"]))
		if err != nil {
			return nil, err
		}
		return &influxql.BinaryExpr{Op: op, LHS: l, RHS: r}, nil
	case "ParenExpr":
		e, err := c09build(obj(n["Expr"]))
		if err != nil {
			return nil, err
		}
		return &influxql.ParenExpr{Expr: e}, nil
	case "VarRef":
		return &influxql.VarRef{Val: str(n["Val"])}, nil
	case "Call":
		c := &influxql.Call{Name: str(n["Name"])}
		for _, a := range list(n["Args"]) {
			e, err := c09build(obj(a))
			if err != nil {
				return nil, err
			}
			c.Args = append(c.Args, e)
		}
		return c, nil
	case "NilLiteral":
		return &influxql.NilLiteral{}, nil
	case "IntegerLiteral", "UnsignedLiteral", "NumberLiteral", "BooleanLiteral", "StringLiteral", "DurationLiteral", "TimeLiteral":
		v, err := c09value(c09litValue(n))
		if err != nil {
			return nil, err
		}
		switch x := v.(type) {
		case int64:
			return &influxql.IntegerLiteral{Val: x}, nil
		case uint64:
			return &influxql.UnsignedLiteral{Val: x}, nil
		case float64:
			return &influxql.NumberLiteral{Val: x}, nil
		case bool:
			return &influxql.BooleanLiteral{Val: x}, nil
		case string:
			return &influxql.StringLiteral{Val: x}, nil
		case time.Duration:
			return &influxql.DurationLiteral{Val: x}, nil
		case time.Time:
			return &influxql.TimeLiteral{Val: x}, nil
		}
	}
	return nil, fmt.Errorf("cannot build node kind %q", str(n["k"]))
}

// c09litValue turns a literal node record into a tagged value record.
func c09litValue(n M) M {
	switch str(n["k"]) {
	case "IntegerLiteral":
		return M{"t": "int", "v": n["Val"]}
	case "UnsignedLiteral":
		return M{"t": "uns", "v": n["Val"]}
	case "NumberLiteral":
		return M{"t": "float", "v": n["m"], "e": n["e"]}
	case "BooleanLiteral":
		return M{"t": "bool", "v": str(n["Val"])}
	case "StringLiteral":
		return M{"t": "str", "v": n["Val"]}
	case "DurationLiteral":
		return M{"t": "dur", "v": n["Val"]}
	case "TimeLiteral":
		return M{"t": "time", "v": n["ns"]}
	}
	return M{"t": "nil"}
}

var c09billion = big.NewInt(1000000000)

// c09value turns a tagged value record into the Go value a Valuer would hand out.
func c09value(v M) (interface{}, error) {
	s := str(v["v"])
	switch t := str(v["t"]); t {
	case "int":
		return strconv.ParseInt(s, 10, 64)
	case "uns":
		return strconv.ParseUint(s, 10, 64)
	case "float":
		switch s {
		case "NaN":
			return math.NaN(), nil
		case "+Inf":
			return math.Inf(1), nil
		case "-Inf":
			return math.Inf(-1), nil
		}
		m, err := strconv.ParseInt(s, 10, 64)
		if err != nil {
			return nil, err
		}
		if m > 1<<53 || m < -(1<<53) {
			return nil, fmt.Errorf("significand %d has more than 53 bits", m)
		}
		return math.Ldexp(float64(m), num(v["e"])), nil
	case "bool":
		return s == "true", nil
	case "str":
		return s, nil
	case "dur":
		d, err := strconv.ParseInt(s, 10, 64)
		return time.Duration(d), err
	case "time":
		ns, ok := new(big.Int).SetString(s, 10)
		if !ok {
			return nil, fmt.Errorf("bad instant %q", s)
		}
		sec, nsec := new(big.Int).DivMod(ns, c09billion, new(big.Int)) // Euclidean: 0 <= nsec < 1e9
		if !sec.IsInt64() {
			return nil, fmt.Errorf("instant %q out of range", s)
		}
		return time.Unix(sec.Int64(), nsec.Int64()).UTC(), nil
	default:
		return nil, fmt.Errorf("unknown value kind %q", t)
	}
}

// c09tag renders a value returned by Eval as a tagged record.  Floats: odd significand (decimal
// string) and binary exponent, exactly decoded from the IEEE bits, plus the bit pattern itself.
func c09tag(x interface{}) M {
	switch v := x.(type) {
	case nil:
		return M{"t": "nil", "v": ""}
	case int64:
		return M{"t": "int", "v": strconv.FormatInt(v, 10)}
	case uint64:
		return M{"t": "uns", "v": strconv.FormatUint(v, 10)}
	case float64:
		m, e := c09floatME(v)
		bits := fmt.Sprintf("%016x", math.Float64bits(v))
		if v != v {
			bits = "NaN"
		}
		return M{"t": "float", "v": m, "e": e, "bits": bits}
	case bool:
		return M{"t": "bool", "v": strconv.FormatBool(v)}
	case string:
		return M{"t": "str", "v": v}
	case time.Duration:
		return M{"t": "dur", "v": strconv.FormatInt(int64(v), 10)}
	case time.Time:
		return M{"t": "time", "v": timeNs(v)}
	}
	return M{"t": "other", "v": fmt.Sprintf("%T:%v", x, x)}
}

func c09floatME(f float64) (string, int) {
	switch {
	case f != f:
		return "NaN", 0
	case math.IsInf(f, 1):
		return "+Inf", 0
	case math.IsInf(f, -1):
		return "-Inf", 0
	case f == 0:
		return "0", 0
	}
	b := math.Float64bits(f)
	exp := int(b>>52) & 0x7ff
	m := b & (1<<52 - 1)
	e := -1074
	if exp != 0 {
		m |= 1 << 52
		e = exp - 1075
	}
	for m&1 == 0 {
		m >>= 1
		e++
	}
	s := strconv.FormatUint(m, 10)
	if b>>63 != 0 {
		s = "-" + s
	}
	return s, e
}

// c09proj is project() with the two literal kinds whose payload the specifications hold in
// another form: NumberLiteral {m, e} and TimeLiteral {ns}.
func c09proj(e influxql.Expr) interface{} {
	switch x := e.(type) {
	case nil:
		return M{"k": "nil"}
	case *influxql.BinaryExpr:
		return M{"k": "BinaryExpr", "Op": x.Op.String(), "LHS": c09proj(x.LHS), "RHS": c09proj(x.RHS)}
	case *influxql.ParenExpr:
		return M{"k": "ParenExpr", "Expr": c09proj(x.Expr)}
	case *influxql.NumberLiteral:
		m, ex := c09floatME(x.Val)
		return M{"k": "NumberLiteral", "m": m, "e": ex}
	case *influxql.TimeLiteral:
		return M{"k": "TimeLiteral", "ns": timeNs(x.Val)}
	case *influxql.Call:
		c := M{"k": "Call", "Name": x.Name}
		if len(x.Args) > 0 {
			a := make([]interface{}, len(x.Args))
			for i := range x.Args {
				a[i] = c09proj(x.Args[i])
			}
			c["Args"] = a
		}
		return c
	}
	return project(e)
}

// c09text writes a tree record as InfluxQL text (own renderer; "!=" spelled sp when given).
func c09text(n M, sp string) string {
	switch str(n["k"]) {
	case "BinaryExpr":
		op := str(n["Op"])
		if op == "!=" && sp != "" {
			op = sp
		}
		return c09text(obj(n["LHS"]), sp) + " " + op + " " + c09text(obj(n["RHS"]), sp)
	case "ParenExpr":
		return "(" + c09text(obj(n["Expr"]), sp) + ")"
	case "VarRef":
		return str(n["Val"])
	case "IntegerLiteral", "UnsignedLiteral":
		return str(n["Val"])
	case "BooleanLiteral":
		return str(n["Val"])
	case "StringLiteral":
		return "'" + escStr(str(n["Val"])) + "'"
	case "NumberLiteral":
		v, err := c09value(c09litValue(n))
		if err != nil {
			return "?" + err.Error()
		}
		s := strconv.FormatFloat(v.(float64), 'f', -1, 64)
		if !strings.Contains(s, ".") {
			s += ".0"
		}
		return s
	}
	return "?" + str(n["k"])
}

// c09valuer builds the valuer composition a tree record describes.
func c09valuer(vt M, s1 map[string]interface{}, now time.Time) (influxql.Valuer, error) {
	switch k := str(vt["k"]); k {
	case "map":
		return influxql.MapValuer(s1), nil
	case "now":
		nv := &influxql.NowValuer{}
		if b, _ := vt["now"].(bool); b {
			nv.Now = now
		}
		if off, ok := vt["off"]; ok {
			m := num(off)
			if m == 0 {
				nv.Location = time.UTC
			} else {
				nv.Location = time.FixedZone(fmt.Sprintf("UTC%+03d:%02d", m/60, c09abs(m)%60), m*60)
			}
		}
		return nv, nil
	case "multi":
		var ms []influxql.Valuer
		for _, x := range list(vt["ms"]) {
			v, err := c09valuer(obj(x), s1, now)
			if err != nil {
				return nil, err
			}
			ms = append(ms, v)
		}
		return influxql.MultiValuer(ms...), nil
	default:
		return nil, fmt.Errorf("unknown valuer kind %q", k)
	}
}

func c09abs(n int) int {
	if n < 0 {
		return -n
	}
	return n
}

type c09env struct {
	s1, s2, all map[string]interface{}
}

func c09binds(c M) (*c09env, error) {
	env := &c09env{s1: map[string]interface{}{}, s2: map[string]interface{}{}, all: map[string]interface{}{}}
	for _, b := range list(c["binds"]) {
		bm := obj(b)
		v, err := c09value(obj(bm["val"]))
		if err != nil {
			return nil, err
		}
		name := str(bm["n"])
		env.all[name] = v
		if num(bm["at"]) == 1 {
			env.s1[name] = v
		} else {
			env.s2[name] = v
		}
	}
	return env, nil
}

// c09make builds the expression of a case: from the record, or through text and the parser.
func c09make(c M, tree M, o M) (func() (influxql.Expr, error), error) {
	if str(c["via"]) == "text" {
		text := c09text(tree, str(c["sp"]))
		if o != nil {
			o["text"] = text
		}
		return func() (influxql.Expr, error) { return influxql.ParseExpr(text) }, nil
	}
	return func() (influxql.Expr, error) { return c09build(tree) }, nil
}

func c09run(c M) M {
	o := M{}
	env, err := c09binds(c)
	if err != nil {
		o["build_err"] = errStr(err)
		return o
	}
	tree := obj(c["tree"])
	var valuer influxql.Valuer = influxql.MapValuer(env.s1)
	timeFam := str(c["fam"]) == "time"
	if timeFam {
		nv, err := c09value(M{"t": "time", "v": c["now"]})
		if err != nil {
			o["build_err"] = errStr(err)
			return o
		}
		valuer = influxql.MultiValuer(influxql.MapValuer(env.s1), &influxql.NowValuer{Now: nv.(time.Time)})
		if vt := obj(c["vt"]); vt != nil {
			if valuer, err = c09valuer(vt, env.s1, nv.(time.Time)); err != nil {
				o["build_err"] = errStr(err)
				return o
			}
		}
	}
	_, streq := c["plain"]
	mk, _ := c09make(c, tree, o)
	c09observe(o, mk, valuer, env, !timeFam || streq, true)
	if timeFam && obj(c["vt"]) == nil && len(env.s1) > 0 {
		// staged: first only the clock is known (the variables stay), then everything.  The partially reduced tree is
		// an input of the second call: it must come out unchanged, and the staged result must be the direct one.
		if nv, err := c09value(M{"t": "time", "v": c["now"]}); err == nil {
			if e, err := mk(); err == nil {
				st := M{}
				if p := guard(func() {
					part := influxql.Reduce(e, &influxql.NowValuer{Now: nv.(time.Time)})
					st["part"] = c09proj(part)
					full := influxql.Reduce(part, valuer)
					st["full"] = c09proj(full)
					st["part_after"] = c09proj(part)
					influxql.Reduce(part, valuer)
					st["part_after2"] = c09proj(part)
				}); p != "" {
					st["panic"] = p
				}
				o["staged"] = st
			}
		}
	}
	if alts := list(c["alts"]); len(alts) > 0 {
		ao := M{}
		for _, a := range alts {
			am := obj(a)
			x := M{}
			amk, _ := c09make(M{"via": "ast"}, obj(am["tree"]), nil)
			c09observe(x, amk, valuer, env, true, false)
			ao[str(am["name"])] = x
		}
		o["alts"] = ao
	}
	return o
}

var c09StmtZone = func() *time.Location { l, _ := time.LoadLocation("America/Chicago"); return l }()

// c09Poison answers every name with a value no case uses, and every call with a fixed instant
type c09Poison struct{}

func (c09Poison) Value(string) (interface{}, bool) { return int64(424242), true }
func (c09Poison) Call(name string, args []interface{}) (interface{}, bool) {
	return time.Unix(42, 0).UTC(), true
}

// c09observe runs Reduce / Eval on a freshly built expression and records every result.
func c09observe(o M, mk func() (influxql.Expr, error), valuer influxql.Valuer, env *c09env, eval bool, full bool) {
	e0, err := mk()
	if err != nil {
		o["build_err"] = errStr(err)
		return
	}
	if full {
		o["ast0"] = c09proj(e0)
		var s0 string
		if p := guard(func() { s0 = e0.String() }); p != "" {
			o["panic"] = M{"at": "string", "msg": p}
			return
		}
		o["str0"] = s0
	}
	if eval && full {
		var v0 interface{}
		ev := influxql.ValuerEval{Valuer: influxql.MapValuer(env.all), IntegerFloatDivision: true}
		if p := guard(func() { v0 = ev.Eval(e0) }); p != "" {
			o["panic"] = M{"at": "eval", "msg": p}
			return
		}
		o["v0"] = c09tag(v0)
	}
	e1, err := mk() // Reduce clones what it keeps, but give it its own tree anyway
	if err != nil {
		o["build_err"] = errStr(err)
		return
	}
	var red influxql.Expr
	if p := guard(func() { red = influxql.Reduce(e1, valuer) }); p != "" {
		o["panic"] = M{"at": "reduce", "msg": p}
		return
	}
	o["red"] = c09proj(red)
	if full {
		var s string
		if p := guard(func() { s = red.String() }); p != "" {
			o["panic"] = M{"at": "string", "msg": p}
			return
		}
		o["redstr"] = s
		var red2 influxql.Expr
		if p := guard(func() { red2 = influxql.Reduce(red, valuer) }); p != "" {
			o["panic"] = M{"at": "reduce2", "msg": p}
			return
		}
		o["red2"] = c09proj(red2)
		// the trees handed to Reduce are inputs: they must come out as they went in
		o["red_after"] = c09proj(red)
		o["in_after"] = c09proj(e1)
		// the same reduction through other entry points: (a) the statement-level Reduce of a SELECT that holds the
		// expression as its condition (and has a zone of its own), (b) a valuer DERIVED from a shared base - the base is
		// extended once with the case's valuer and then once more with a valuer that answers every name differently
		if e2, err := mk(); err == nil {
			var sred influxql.Expr
			if p := guard(func() {
				st := &influxql.SelectStatement{
					Fields:    influxql.Fields{{Expr: &influxql.VarRef{Val: "v"}}},
					Sources:   influxql.Sources{&influxql.Measurement{Name: "m"}},
					Condition: e2, Location: c09StmtZone, IsRawQuery: true,
				}
				sred = st.Reduce(valuer).Condition
			}); p != "" {
				o["panic"] = M{"at": "statement-reduce", "msg": p}
				return
			}
			o["stmt_red"] = c09proj(sred)
		}
		if e3, err := mk(); err == nil {
			var mred influxql.Expr
			if p := guard(func() {
				base := influxql.MultiValuer(influxql.MultiValuer(influxql.MapValuer{}, influxql.MapValuer{}), influxql.MapValuer{})
				d1 := influxql.MultiValuer(base, valuer)
				_ = influxql.MultiValuer(base, c09Poison{})
				mred = influxql.Reduce(e3, d1)
			}); p != "" {
				o["panic"] = M{"at": "derived-valuer", "msg": p}
				return
			}
			o["multi_red"] = c09proj(mred)
		}
	}
	if eval {
		var v1 interface{}
		ev := influxql.ValuerEval{Valuer: influxql.MapValuer(env.s2), IntegerFloatDivision: true}
		if p := guard(func() { v1 = ev.Eval(red) }); p != "" {
			o["panic"] = M{"at": "eval-reduced", "msg": p}
			return
		}
		o["v1"] = c09tag(v1)
	}
}
