package main

import (
	"strings"
	"fmt"
	"math/big"
	"os"
	"strconv"
	"sync"
	"time"

	"github.com/influxdata/influxql"
)

// c10: render a condition, split it with the real ConditionExpr (three times on the same
// parsed expression and once on a fresh parse), record every range as symbolic instants, the
// residual's truth table (real EvalBool) and the printed condition around every call.  No
// verdicts here.
//
// Symbolic instants (DESIGN.md 3.3): {"k": base, "d": offset in ns}.  The mapping from
// bases to real timestamps lives only in this file:
//
//	regular   0 = MinTime  1 = 1971-03-05T12:34:56.123456789Z  2, 3 = midnights (shifted by
//	          VERIF_SEED days)  4 = 2031-12-31T23:59:59.999999999Z  5 = MaxTime
//	edge      1 = MinTime+1 (smallest accepted time literal)  2, 3 as above  4 = MaxTime
//
// now() is base 3.  Open range ends (zero time.Time) are {"k":-9,"d":0}; an observed instant
// that is not within 3 ns of a base is {"k":-8,"d":0} ("unmappable").
//
// Zone runs (VERIF_C10_ZONE_MIN = offset in minutes): the valuer carries a fixed zone, the
// midnights 2 and 3 are midnights IN THAT ZONE and zone-less literal forms (dt, date) are written
// as wall clock in that zone.  The symbolic instants, and with them everything the judge sees,
// are the same as in a UTC run.
//
// tz runs (C18, VERIF_C18_TZ = zone name with daylight saving, e.g. America/New_York): the statement carries
// tz('<zone>'), the valuer carries the zone, and the bases 1, 2, 3 are 04:00Z, 05:00Z and 06:00Z of 2021-11-07:
// 05:00Z and 06:00Z are both "01:00" on that zone's wall clock (the hour the clocks repeat).  Zone-less literal
// forms (dt, date) are ambiguous there and are written as rfc.  Symbolic instants are unchanged.
type c10Mapping struct {
	bases map[int]time.Time
	now   time.Time
	zone  *time.Location
	tz    string
}

func (m *c10Mapping) valuer() *influxql.NowValuer {
	if m.zone == time.UTC {
		return &influxql.NowValuer{Now: m.now}
	}
	return &influxql.NowValuer{Now: m.now, Location: m.zone}
}

// valuerComp is the same valuer reached through a COMPOSITION: a nested MultiValuer and a NowValuer that knows no
// zone stand before the one that carries it.  The zone in force is the first non-nil zone; the split must not differ.
func (m *c10Mapping) valuerComp() influxql.Valuer {
	if m.zone == time.UTC {
		return influxql.MultiValuer(influxql.MultiValuer(influxql.MapValuer{}), &influxql.NowValuer{Now: m.now})
	}
	return influxql.MultiValuer(influxql.MultiValuer(influxql.MapValuer{}), &influxql.NowValuer{Now: m.now},
		&influxql.NowValuer{Now: m.now, Location: m.zone})
}

func c10Map(edge bool, tz string) *c10Mapping { return c10MapZ(edge, tz, os.Getenv("VERIF_C10_ZONE_MIN")) }

func c10MapZ(edge bool, tz string, z string) *c10Mapping {
	shift := time.Duration(seed()%1000) * 24 * time.Hour
	zone := time.UTC
	if z != "" {
		zone = time.FixedZone("Z"+z, func() int { n, _ := strconv.Atoi(z); return n }()*60)
	}
	m := &c10Mapping{zone: zone, bases: map[int]time.Time{
		2: time.Date(2000, 1, 1, 0, 0, 0, 0, zone).Add(shift),
		3: time.Date(2010, 6, 15, 0, 0, 0, 0, zone).Add(shift),
	}}
	if edge {
		m.bases[1] = time.Unix(0, influxql.MinTime+1).UTC()
		m.bases[4] = time.Unix(0, influxql.MaxTime).UTC()
	} else {
		m.bases[0] = time.Unix(0, influxql.MinTime).UTC()
		m.bases[1] = time.Date(1971, 3, 5, 12, 34, 56, 123456789, time.UTC)
		m.bases[4] = time.Date(2031, 12, 31, 23, 59, 59, 999999999, time.UTC)
		m.bases[5] = time.Unix(0, influxql.MaxTime).UTC()
		// instants no time literal can denote (C18: old bounds that can only be stripped, never evaluated)
		m.bases[-1] = time.Date(1500, 1, 1, 0, 0, 0, 0, time.UTC)
		m.bases[6] = time.Date(2300, 1, 1, 0, 0, 0, 0, time.UTC)
	}
	if tz != "" {
		// "<zone>@utc0": 8-hour windows around a UTC midnight instead (a bound on a UTC day boundary in a zone that is not UTC)
		utc0 := strings.HasSuffix(tz, "@utc0")
		tz = strings.TrimSuffix(tz, "@utc0")
		loc, err := time.LoadLocation(tz)
		if err != nil {
			panic("c10: " + err.Error())
		}
		m.zone, m.tz = loc, tz
		m.bases[1] = time.Date(2021, 11, 7, 4, 0, 0, 0, time.UTC)
		m.bases[2] = time.Date(2021, 11, 7, 5, 0, 0, 0, time.UTC)
		m.bases[3] = time.Date(2021, 11, 7, 6, 0, 0, 0, time.UTC)
		if utc0 {
			m.bases[1] = time.Date(2021, 11, 6, 16, 0, 0, 0, time.UTC)
			m.bases[2] = time.Date(2021, 11, 7, 0, 0, 0, 0, time.UTC)
			m.bases[3] = time.Date(2021, 11, 7, 8, 0, 0, 0, time.UTC)
		}
	}
	m.now = m.bases[3]
	return m
}

var c10Maps = map[bool]*c10Mapping{}

// tz mappings (C18): built on demand, one per zone name
var c10TzMaps sync.Map

// zone mappings (C10): a case may carry its zone offset itself ("zmin", minutes east), so that a replay needs no environment
func c10GetZoneMap(edge bool, zmin string) *c10Mapping {
	key := fmt.Sprintf("z:%v:%s", edge, zmin)
	if m, ok := c10TzMaps.Load(key); ok {
		return m.(*c10Mapping)
	}
	m, _ := c10TzMaps.LoadOrStore(key, c10MapZ(edge, "", zmin))
	return m.(*c10Mapping)
}

func c10GetTzMap(tz string) *c10Mapping {
	if m, ok := c10TzMaps.Load(tz); ok {
		return m.(*c10Mapping)
	}
	m, _ := c10TzMaps.LoadOrStore(tz, c10Map(false, tz))
	return m.(*c10Mapping)
}

func c10GetMap(edge bool) *c10Mapping {
	// built once per process before the workers start (see init below)
	return c10Maps[edge]
}

// real instant of (k, d)
func (m *c10Mapping) at(k, d int) time.Time {
	b, ok := m.bases[k]
	if !ok {
		panic(fmt.Sprintf("c10: no base %d in this mapping", k))
	}
	return b.Add(time.Duration(d))
}

// nanoseconds since the epoch of (k, d) as an exact integer (may leave int64 by a few ns)
func (m *c10Mapping) nanos(k, d int) *big.Int {
	b := m.bases[k]
	n := new(big.Int).Mul(big.NewInt(b.Unix()), big.NewInt(1e9))
	n.Add(n, big.NewInt(int64(b.Nanosecond())))
	return n.Add(n, big.NewInt(int64(d)))
}

// symbolic name of an observed instant
func (m *c10Mapping) sym(t time.Time) M {
	if t.IsZero() {
		return M{"k": -9, "d": 0}
	}
	for k, b := range m.bases {
		d := t.Sub(b) // saturates far away, exact close by
		if d >= -3 && d <= 3 {
			return M{"k": k, "d": int(d)}
		}
	}
	return M{"k": -8, "d": 0, "raw": t.UTC().Format(time.RFC3339Nano)}
}

func c10DurText(n *big.Int) string {
	// whole days / seconds are written with their unit, everything else in ns
	day := big.NewInt(86400e9)
	sec := big.NewInt(1e9)
	q, r := new(big.Int).QuoRem(n, day, new(big.Int))
	if r.Sign() == 0 && q.Sign() != 0 {
		return q.String() + "d"
	}
	q, r = new(big.Int).QuoRem(n, sec, new(big.Int))
	if r.Sign() == 0 && q.Sign() != 0 {
		return q.String() + "s"
	}
	return n.String() + "ns"
}

func c10Tok(t, s, g string) M { return M{"t": t, "s": s, "g": g} }

// c10Resolve replaces every symbolic time literal token {"t":"tlit",k,d,f} by concrete tokens.
func c10Resolve(toks []interface{}, m *c10Mapping) []interface{} {
	var out []interface{}
	for _, x := range toks {
		t := obj(x)
		if str(t["t"]) != "tlit" {
			out = append(out, x)
			continue
		}
		k, d, g := num(t["k"]), num(t["d"]), str(t["g"])
		at := m.at(k, d)
		f := str(t["f"])
		if m.tz != "" && (f == "dt" || f == "date") {
			f = "rfc"
		}
		switch f {
		case "int":
			out = append(out, c10Tok("int", m.nanos(k, d).String(), g))
		case "rfc", "rfcfar":
			out = append(out, c10Tok("str", at.UTC().Format(time.RFC3339Nano), g))
		case "dt":
			out = append(out, c10Tok("str", at.In(m.zone).Format("2006-01-02 15:04:05.999999999"), g))
		case "date":
			at = at.In(m.zone)
			if at.Hour() != 0 || at.Minute() != 0 || at.Second() != 0 || at.Nanosecond() != 0 {
				panic("c10: date form for an instant that is not midnight")
			}
			out = append(out, c10Tok("str", at.Format("2006-01-02"), g))
		case "intm", "intp", "rfcm", "rfcp":
			// the instant written as arithmetic: (instant + 1h) - 1h  or  (instant - 1h) + 1h
			hour := big.NewInt(3600e9)
			sign, op := int64(1), "-"
			if f == "intp" || f == "rfcp" {
				sign, op = -1, "+"
			}
			if f[0] == 'i' {
				n := new(big.Int).Add(m.nanos(k, d), new(big.Int).Mul(hour, big.NewInt(sign)))
				out = append(out, c10Tok("int", n.String(), g))
			} else {
				out = append(out, c10Tok("str", at.Add(time.Duration(sign)*time.Hour).UTC().Format(time.RFC3339Nano), g))
			}
			out = append(out, c10Tok("p", op, "L"), c10Tok("dur", "1h", "L"))
		case "revrfc", "revdt", "revint":
			// the duration on the left: 1h + <the instant minus 1h>
			out = append(out, c10Tok("dur", "1h", g), c10Tok("p", "+", "L"))
			before := at.Add(-time.Hour)
			switch f {
			case "revrfc":
				out = append(out, c10Tok("str", before.UTC().Format(time.RFC3339Nano), "L"))
			case "revdt":
				if m.tz != "" {
					out = append(out, c10Tok("str", before.UTC().Format(time.RFC3339Nano), "L"))
				} else {
					out = append(out, c10Tok("str", before.In(m.zone).Format("2006-01-02 15:04:05.999999999"), "L"))
				}
			default:
				n := new(big.Int).Sub(m.nanos(k, d), big.NewInt(3600e9))
				out = append(out, c10Tok("int", n.String(), "L"))
			}
		case "dur":
			n := m.nanos(k, d)
			if n.Sign() < 0 {
				out = append(out, c10Tok("p", "-", g), c10Tok("dur", c10DurText(new(big.Int).Neg(n)), "T"))
			} else {
				out = append(out, c10Tok("dur", c10DurText(n), g))
			}
		case "now":
			nowNs := new(big.Int).Mul(big.NewInt(m.now.Unix()), big.NewInt(1e9))
			nowNs.Add(nowNs, big.NewInt(int64(m.now.Nanosecond())))
			diff := new(big.Int).Sub(m.nanos(k, d), nowNs)
			out = append(out, c10Tok("id", "now", g), c10Tok("p", "(", "T"), c10Tok("p", ")", "T"))
			if diff.Sign() > 0 {
				out = append(out, c10Tok("p", "+", "L"), c10Tok("dur", c10DurText(diff), "L"))
			} else if diff.Sign() < 0 {
				out = append(out, c10Tok("p", "-", "L"), c10Tok("dur", c10DurText(new(big.Int).Neg(diff)), "L"))
			}
		default:
			panic("c10: unknown literal form " + f)
		}
	}
	return out
}

// the eight valuations in the order of Cond!ValIdx
func c10Valuations() []influxql.MapValuer {
	var out []influxql.MapValuer
	for _, t1 := range []string{"x", "y"} {
		for _, t2 := range []string{"x", "y"} {
			for _, v := range []int64{1, 2} {
				out = append(out, influxql.MapValuer{"t1": t1, "t2": t2, "v": v})
			}
		}
	}
	return out
}

// c10Split records ConditionExpr(cond, NowValuer) into o (with the projected residual AST).
func c10Split(o M, cond influxql.Expr, m *c10Mapping) { c10SplitInto(o, cond, m, true) }

// c10SplitInto records one call of ConditionExpr(cond, NowValuer) into o; withAST adds the
// projection and the text of the residual (only used for the drift report).
func c10SplitInto(o M, cond influxql.Expr, m *c10Mapping, withAST bool) {
	c10SplitWith(o, cond, m, withAST, m.valuer())
}

func c10SplitWith(o M, cond influxql.Expr, m *c10Mapping, withAST bool, valuer influxql.Valuer) {
	var res influxql.Expr
	var tr influxql.TimeRange
	var err error
	if p := guard(func() { res, tr, err = influxql.ConditionExpr(cond, valuer) }); p != "" {
		o["panic"] = p
		return
	}
	if err != nil {
		o["err"] = errStr(err)
		return
	}
	o["lo"], o["hi"] = m.sym(tr.Min), m.sym(tr.Max)
	if p := guard(func() {
		o["loT"], o["hiT"] = m.sym(tr.MinTime()), m.sym(tr.MaxTime())
		o["loN"], o["hiN"] = m.sym(time.Unix(0, tr.MinTimeNano())), m.sym(time.Unix(0, tr.MaxTimeNano()))
	}); p != "" {
		o["panic"] = p
		return
	}
	if res == nil {
		o["nores"] = true
		return
	}
	if withAST {
		o["res"] = project(res)
		o["resstr"] = res.String()
	}
	rt := make([]interface{}, 0, 8)
	if p := guard(func() {
		for _, val := range c10Valuations() {
			ev := influxql.ValuerEval{Valuer: val}
			rt = append(rt, ev.EvalBool(res))
		}
	}); p != "" {
		o["panic"] = p
		return
	}
	o["rt"] = rt
}

func init() {
	c10Maps[false], c10Maps[true] = c10Map(false, ""), c10Map(true, "")
	register("c10", &Suite{Run: func(c M) M {
		edge, _ := c["edge"].(bool)
		m := c10GetMap(edge)
		if z := str(c["zmin"]); z != "" {
			m = c10GetZoneMap(edge, z)
		}
		var text string
		if t := list(c["toks"]); t != nil {
			text = render(c10Resolve(t, m))
		} else {
			text = str(c["text"])
		}
		o := M{"text": text, "now": strconv.FormatInt(m.now.UnixNano(), 10)}
		var e influxql.Expr
		var err error
		if p := guard(func() { e, err = influxql.ParseExpr(text) }); p != "" {
			o["panic"] = p
			return o
		}
		if err != nil {
			o["perr"] = errStr(err)
			return o
		}
		// The property is about every call, not only the first one on a fresh parse: the SAME
		// parsed expression is split three times, then a freshly parsed one once more.  The
		// printed condition is recorded before the first and after every call.
		printed := func(x influxql.Expr) string {
			var s string
			if p := guard(func() { s = x.String() }); p != "" {
				return "panic: " + p
			}
			return s
		}
		o["p0"] = printed(e)
		c10SplitInto(o, e, m, true)
		o["p1"] = printed(e)
		more := make([]interface{}, 0, 3)
		for i := 2; i <= 3; i++ {
			k := M{"call": strconv.Itoa(i)}
			c10SplitInto(k, e, m, false)
			k["post"] = printed(e)
			more = append(more, k)
		}
		k := M{"call": "fresh"}
		var e2 influxql.Expr
		if p := guard(func() { e2, err = influxql.ParseExpr(text) }); p != "" {
			k["panic"] = p
		} else if err != nil {
			k["err"] = "parse: " + errStr(err)
		} else {
			k["pre"] = printed(e2)
			// the fresh parse is split under the same clock and zone reached through a valuer composition
			c10SplitWith(k, e2, m, false, m.valuerComp())
			k["post"] = printed(e2)
		}
		more = append(more, k)
		o["more"] = more
		return o
	}})
}
