"""C05 - the lexer partitions its input and reports exact positions."""
import json
import os
import subprocess

import vp

LEVEL = "model_checking"
SPECDIRS = ("c05",)
INV = "MTiles MPos MPosStrict MRing MSteps MTerm MSticky"


def cfg(n, sigma):
    return ("SPECIFICATION Spec\nCONSTANTS\n  N = %d\n  Sigma <- %s\nINVARIANTS %s\nCHECK_DEADLOCK FALSE\n"
            % (n, sigma, INV))


TESTMAIN = """
func TestMain(m *testing.M) {
	stop := traceToFile(os.Getenv("VERIF_TRACE_FILE"))
	code := m.Run()
	stop()
	os.Exit(code)
}
"""


def trace_repo_tests(ctx):
    """Run the repository's own test suite with the session tracer (harness/tracer.go) compiled into the test
    binary through `go test -overlay` (nothing is written into the repository) and return the trace file."""
    d = ctx.path("overlay")
    os.makedirs(d, exist_ok=True)
    src = open(os.path.join(vp.VERIF, "harness", "tracer.go")).read()
    src = src.replace("package main", "package influxql_test", 1).replace("import (\n", "import (\n\t\"testing\"\n", 1) + TESTMAIN
    tf = os.path.join(d, "zz_verif_trace_test.go")
    open(tf, "w").write(src)
    ovf = os.path.join(d, "overlay.json")
    json.dump({"Replace": {os.path.join(vp.REPO, "zz_verif_trace_test.go"): tf}}, open(ovf, "w"))
    trace = ctx.path("obs_repotests.ndjson")
    env = vp.go_env()
    env["VERIF_TRACE_FILE"] = trace
    p = subprocess.run(["go", "test", "-tags", "verif", "-overlay", ovf, "-vet=off", "-count=1", "-timeout", "20m", "."],
                       cwd=vp.REPO, env=env, stdout=subprocess.PIPE, stderr=subprocess.STDOUT, text=True, timeout=1500)
    if not os.path.exists(trace) or ctx.count_lines(trace) < 2:
        raise vp.Broken("the repository's tests produced no trace under the overlay tracer:\n" + p.stdout[-3000:])
    if p.returncode != 0:
        ctx.note("the repository's own tests FAIL on this tree (their verdict is not this check's business); "
                 "the sessions they produced are validated all the same")
    return trace


def insitu(ctx, mutcases):
    """Trace validation of executions nobody arranged for this property: (1) every scanner session of the repository's
    own test suite, (2) the parser's sessions over the single-token mutation corpus (mostly error paths) and over the
    short operator / number inputs read as expressions.  Judged by the trace specification ScanTrace.tla."""
    trace = trace_repo_tests(ctx)
    summ = ctx.read_ndjson(trace)[-1]["obs"]
    ctx.judge("ScanTrace", "ScanTrace.cfg", trace, label="repotests", chunk=4000, suite="c05t")
    ctx.note("in-situ trace of the repository's tests: %s scanner sessions (%s distinct), %s reader/ring events"
             % (summ.get("sessions"), summ.get("distinct"), summ.get("events")))
    ctx.coverage_extra["repotests.sessions"] = int(summ.get("sessions", 0))
    ctx.coverage_extra["repotests.events"] = int(summ.get("events", 0))

    def corrupt(r):
        o = r["obs"]
        ev, toks = o.get("ev") or [], o.get("toks") or []
        if r["id"] % 2 == 0:
            for t in toks:
                if t[0] not in ("STRING", "BADSTRING", "BADESCAPE", "EOF"):
                    t[2] += 1          # a token reported one column to the right
                    return True
            return False
        for k, e in enumerate(ev):
            if e // 1000 == 3:          # one unread step lost
                del ev[k]
                return True
        return False
    vp.binding_selftest(ctx, "ScanTrace", "ScanTrace.cfg", trace, corrupt, n=120)
    of = ctx.path("obs_insitu_mut.ndjson")
    ctx.drive("c05t", mutcases, of)
    ctx.judge("ScanTrace", "ScanTrace.cfg", of, label="insitu_mut", chunk=6000, suite="c05t")
    ctx.note("in-situ trace of ParseQuery over the mutation corpus: %d sessions" % ctx.count_lines(of))
    for a in ("SigmaOps4", "SigmaNum4"):
        cf = ctx.path("cases_%s.ndjson" % a)
        if os.path.exists(cf):
            of = ctx.path("obs_insitu_%s.ndjson" % a)
            ctx.drive("c05t", cf, of, env={"VERIF_ENTRY": "expr"})
            ctx.judge("ScanTrace", "ScanTrace.cfg", of, label="insitu_" + a, chunk=8000, suite="c05t")
            ctx.note("in-situ trace of ParseExpr over %s: %d sessions" % (a, ctx.count_lines(of)))


def run(ctx):
    ctx.stage_specs(*SPECDIRS)
    ctx.build_driver()
    ctx.rule = ("TLC enumerates every input over four 12-14 character alphabets up to length N (BFS, exhaustive) and "
                "model-checks the rune-level design spec of scanner.go against the declarative property spec on each; "
                "every input is scanned by the real Scanner with the hook-based source meter, and seeded random multi-line "
                "texts built from token spellings are added. Distinct = distinct inputs; non-trivial = at least two "
                "tokens before EOF (counted by the TLA+ judge). Trace validation (ScanTrace.tla): every scanner session of the "
                "repository's own test suite (tracer compiled in with go test -overlay) and the parser's sessions over the "
                "single-token mutation corpus and the short inputs read as expressions are replayed step by step through the "
                "reader / token-ring model: ring discipline with inferred Unscan counts, position of every token, progress, "
                "sticky EOF.")
    ctx.assumptions = ["TLC 1.8 + CommunityModules", "source extents are measured from bufio/strings.Reader consumption at the "
                       "reader hook events (harness/suite_c05.go: meter)", "NUL is excluded from inputs (it is the reader's EOF marker)"]
    n = 4 if ctx.quick else 5
    alphabets = ["SigmaStr", "SigmaOps", "SigmaNum", "SigmaMix"]
    if not ctx.quick:
        # length 5 over the 14-letter alphabet is 580k inputs; keep the three 12-letter ones at 5 and Mix at 4
        pass
    # the four generator / model-check runs side by side (2 TLC workers each), then drive + judge one after another
    import concurrent.futures as _cf

    def _gen(a):
        nn = n if (ctx.quick or a in ("SigmaStr", "SigmaNum")) else 4   # 271k inputs each at length 5
        name = "%s%d" % (a, nn)
        c = "Gen_c05_%s.cfg" % name
        open(ctx.path("spec", c), "w").write(cfg(nn, a))
        cf = ctx.path("cases_%s.ndjson" % name)
        r = ctx.tlc("Gen_c05", c, env={"CASE_FILE": cf}, workers=2 if ctx.quick else 4, timeout=2400, expect_ok=False)
        return name, cf, r
    with _cf.ThreadPoolExecutor(max_workers=4 if ctx.quick else 2) as ex:
        gens = list(ex.map(_gen, alphabets))
    for name, cf, r in gens:
        if r.invariant_violated or not r.ok:
            raise vp.Broken("pass M failed: the design spec of the lexer violates the property spec beyond the named "
                            "deviations:\n" + "\n".join(r.out.splitlines()[-40:]))
        of = ctx.path("obs_%s.ndjson" % name)
        ctx.drive("c05", cf, of)
        ctx.note("%s: %d inputs model-checked (%d states, %.0fs), %d scanned by the real lexer" % (
            name, r.distinct - 1, r.distinct, r.wall, ctx.count_lines(of)))
        ctx.judge("Judge_c05", "Judge_c05.cfg", of, label=name)
        if not ctx.samples:
            recs = ctx.read_ndjson(of)
            ctx.samples = [dict(input="".join(x["inp"]), tokens=[[t["tok"], t["line"], t["char"], t["s"], t["e"]] for t in x["obs"]["toks"]])
                           for x in recs[100:20000:4500]]
    def corrupt(r):
        t = r["obs"].get("toks") or []
        if len(t) >= 2 and t[0]["tok"] not in ("STRING", "BADSTRING", "BADESCAPE", "EOF"):
            t[0]["char"] += 1
            return True
        return False
    vp.binding_selftest(ctx, "Judge_c05", "Judge_c05.cfg", ctx.path("obs_SigmaOps%d.ndjson" % (4 if ctx.quick else 4)), corrupt)
    # seeded random multi-line texts (pass V on executions the generator did not enumerate)
    nr, lo, hi = (600, 40, 160) if ctx.quick else (6000, 50, 400)
    of = ctx.path("obs_rand.ndjson")
    ctx.drive("c05", None, of, args=[nr, lo, hi])
    ctx.judge("Judge_c05", "Judge_c05.cfg", of, label="rand", chunk=1000)
    ctx.note("random texts: %d" % ctx.count_lines(of))
    # buffer boundaries (Gen_c05b): multi-byte characters and line breaks at every offset around the multiples of 4096
    cb = "Gen_c05b.cfg"
    open(ctx.path("spec", cb), "w").write("SPECIFICATION Spec\nCONSTANTS\n  Bufs = {4096}\n  Mults = %s\n  Around = %d\nCHECK_DEADLOCK FALSE\n"
                                          % (("{1, 2}", 3) if ctx.quick else ("{1, 2, 3, 16}", 6)))
    cf = ctx.path("cases_boundary.ndjson")
    ctx.tlc("Gen_c05b", cb, env={"CASE_FILE": cf}, workers=1, timeout=900)
    of = ctx.path("obs_boundary.ndjson")
    ctx.drive("c05", cf, of)
    ctx.judge("Judge_c05", "Judge_c05.cfg", of, label="boundary", chunk=40, timeout=1500)
    nl = sum(len(x["obs"].get("longs", [])) for x in ctx.read_ndjson(of))
    ctx.note("buffer boundaries: %d short inputs, each scanned again with %d runs that put what follows at every offset around "
             "the multiples of 4096 (%d long scans)" % (ctx.count_lines(of), nl // max(1, ctx.count_lines(of)), nl))
    ctx.coverage_extra["boundary_long_scans"] = nl
    # second half of the property: positions quoted by parse errors. Corpus: every single-token mutation
    # of 24 base statements (spec/c04/Gen_c04w.tla, part "mut") - almost all of them fail to parse.
    ctx.stage_specs("c05", "c04")
    cfgname = "Gen_c04w_mut.cfg"
    open(ctx.path("spec", cfgname), "w").write('SPECIFICATION Spec\nCONSTANTS\n  N = 1\n  Part = "mut"\n  Sizes = {64}\nCHECK_DEADLOCK FALSE\n')
    cf = ctx.path("cases_errpos.ndjson")
    ctx.tlc("Gen_c04w", cfgname, env={"CASE_FILE": cf}, workers=2)
    of = ctx.path("obs_errpos.ndjson")
    ctx.drive("c05err", cf, of)
    ctx.judge("Judge_c05e", "Judge_c05e.cfg", of, label="errpos", chunk=8000)
    ctx.note("parse-error positions: %d mutated statements" % ctx.count_lines(of))
    insitu(ctx, cf)
    ctx.coverage_extra["exhaustive_parts"] = alphabets + ["errpos"]
    ctx.coverage_extra["sampled_parts"] = ["rand"]
    ctx.coverage_extra["trace_validation_parts"] = ["repotests", "insitu_mut", "insitu_SigmaOps4", "insitu_SigmaNum4"]
    ctx.exhaustive = False
    return vp.case_finder


replay = vp.generic_replay("c05", "Judge_c05", "Judge_c05.cfg", SPECDIRS)
