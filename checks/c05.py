"""C05 - the lexer partitions its input and reports exact positions."""
import vp

LEVEL = "model_checking"
SPECDIRS = ("c05",)
INV = "MTiles MPos MPosStrict MRing MSteps MTerm MSticky"


def cfg(n, sigma):
    return ("SPECIFICATION Spec\nCONSTANTS\n  N = %d\n  Sigma <- %s\nINVARIANTS %s\nCHECK_DEADLOCK FALSE\n"
            % (n, sigma, INV))


def run(ctx):
    ctx.stage_specs(*SPECDIRS)
    ctx.build_driver()
    ctx.rule = ("TLC enumerates every input over four 12-14 character alphabets up to length N (BFS, exhaustive) and "
                "model-checks the rune-level design spec of scanner.go against the declarative property spec on each; "
                "every input is scanned by the real Scanner with the hook-based source meter, and seeded random multi-line "
                "texts built from token spellings are added. Distinct = distinct inputs; non-trivial = at least two "
                "tokens before EOF (counted by the TLA+ judge).")
    ctx.assumptions = ["TLC 1.8 + CommunityModules", "source extents are measured from bufio/strings.Reader consumption at the "
                       "reader hook events (harness/suite_c05.go: meter)", "NUL is excluded from inputs (it is the reader's EOF marker)"]
    n = 4 if ctx.quick else 5
    alphabets = ["SigmaStr", "SigmaOps", "SigmaNum", "SigmaMix"]
    if not ctx.quick:
        # length 5 over the 14-letter alphabet is 580k inputs; keep the three 12-letter ones at 5 and Mix at 4
        pass
    for a in alphabets:
        nn = n if (ctx.quick or a in ("SigmaStr", "SigmaNum")) else 4   # 271k inputs each at length 5
        name = "%s%d" % (a, nn)
        c = "Gen_c05_%s.cfg" % name
        open(ctx.path("spec", c), "w").write(cfg(nn, a))
        cf = ctx.path("cases_%s.ndjson" % name)
        r = ctx.tlc("Gen_c05", c, env={"CASE_FILE": cf}, workers=4, timeout=2400, expect_ok=False)
        if r.invariant_violated or not r.ok:
            raise vp.Broken("pass M failed: the design spec of the lexer violates the property spec beyond the named "
                            "deviations:\n" + "\n".join(r.out.splitlines()[-40:]))
        of = ctx.path("obs_%s.ndjson" % name)
        ctx.drive("c05", cf, of)
        ctx.note("%s: %d inputs model-checked (%d states, %.0fs), %d scanned by the real lexer" % (
            name, r.distinct - 1, r.distinct, r.wall, ctx.count_lines(of)))
        ctx.judge("Judge_c05", "Judge_c05.cfg", of, label=name)
        if not ctx.samples:
            recs = ctx.read_ndjson(of)
            ctx.samples = [dict(input="".join(x["inp"]), tokens=[[t["tok"], t["line"], t["char"], t["s"], t["e"]] for t in x["obs"]["toks"]])
                           for x in recs[100:20000:4500]]
    def corrupt(r):
        t = r["obs"].get("toks") or []
        if len(t) >= 2 and t[0]["tok"] not in ("STRING", "BADSTRING", "BADESCAPE", "EOF"):
            t[0]["char"] += 1
            return True
        return False
    vp.binding_selftest(ctx, "Judge_c05", "Judge_c05.cfg", ctx.path("obs_SigmaOps%d.ndjson" % (4 if ctx.quick else 4)), corrupt)
    # seeded random multi-line texts (pass V on executions the generator did not enumerate)
    nr, lo, hi = (600, 40, 160) if ctx.quick else (6000, 50, 400)
    of = ctx.path("obs_rand.ndjson")
    ctx.drive("c05", None, of, args=[nr, lo, hi])
    ctx.judge("Judge_c05", "Judge_c05.cfg", of, label="rand", chunk=1000)
    ctx.note("random texts: %d" % ctx.count_lines(of))
    # second half of the property: positions quoted by parse errors. Corpus: every single-token mutation
    # of 24 base statements (spec/c04/Gen_c04w.tla, part "mut") - almost all of them fail to parse.
    ctx.stage_specs("c05", "c04")
    cfgname = "Gen_c04w_mut.cfg"
    open(ctx.path("spec", cfgname), "w").write('SPECIFICATION Spec\nCONSTANTS\n  N = 1\n  Part = "mut"\n  Sizes = {64}\nCHECK_DEADLOCK FALSE\n')
    cf = ctx.path("cases_errpos.ndjson")
    ctx.tlc("Gen_c04w", cfgname, env={"CASE_FILE": cf}, workers=2)
    of = ctx.path("obs_errpos.ndjson")
    ctx.drive("c05err", cf, of)
    ctx.judge("Judge_c05e", "Judge_c05e.cfg", of, label="errpos", chunk=8000)
    ctx.note("parse-error positions: %d mutated statements" % ctx.count_lines(of))
    ctx.coverage_extra["exhaustive_parts"] = alphabets + ["errpos"]
    ctx.coverage_extra["sampled_parts"] = ["rand"]
    ctx.exhaustive = False
    return vp.case_finder


replay = vp.generic_replay("c05", "Judge_c05", "Judge_c05.cfg", SPECDIRS)
