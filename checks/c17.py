"""C17 - independent parses and read-only use of a shared AST are safe under concurrency.

Pass M  spec/c17/Conc.tla: 3 goroutines x 2 calls at access granularity over the footprint
        table spec/c17/Footprints.tla: NoRace and SameAsSequential hold for the property's
        operations; with GroupByInterval/GroupByOffset TLC exhibits the memo race (expected
        counterexample), with private ASTs it is gone again; a hypothetical reused package
        buffer violates SameAsSequential (expected counterexample).
Pass G  spec/c17/Gen_c17.tla: schedules (which operations run concurrently on which objects).
Pass V  the driver built with -race runs them; spec/c17/Judge_c17.tla judges write sets
        (V(a)), race-detector reports and results against sequential twins (V(b)).
"""
import json
import os
import re
import subprocess

import vp

LEVEL = "model_checking"
SPECDIRS = ("c17",)
NSTMT, NAUX = 13, 10          # sizes of the statement pools in harness/suite_c17.go
MAX_CRASH_RESTARTS = 5


# ------------------------------------------------------------------------------- pass M
def model(ctx, name, ops, shared, free, invariants, procs=3, ncalls=2, expect=None, timeout=1500):
    cfg = "Conc_%s.cfg" % name
    text = ("SPECIFICATION Spec\nCONSTANTS\n  Procs = {%s}\n  OpsUsed <- %s\n  NCalls = %d\n  SharedAst = %s\n"
            "  ExpectRaceFree = %s\nSYMMETRY Perms\nINVARIANTS %s\nCHECK_DEADLOCK FALSE\n" % (
                ", ".join("p%d" % i for i in range(1, procs + 1)), ops, ncalls, "TRUE" if shared else "FALSE",
                "TRUE" if free else "FALSE", " ".join(invariants)))
    open(ctx.path("spec", cfg), "w").write(text)
    r = ctx.tlc("Conc", cfg, workers=4, expect_ok=False, timeout=timeout, extra=["-noGenerateSpecTE"])
    if expect is None:
        if not r.ok:
            raise vp.Broken("pass M: the design spec (footprint table) violates the property in configuration %s:\n%s"
                            % (name, "\n".join(r.out.splitlines()[-40:])))
        ctx.note("model %s: %d procs x %d calls, %d distinct states, %s hold (%.0fs)"
                 % (name, procs, ncalls, r.distinct, " ".join(invariants), r.wall))
        return None
    # an EXPECTED counterexample: part of the evidence, must not make the check fail
    if not (r.invariant_violated and ("Invariant %s is violated" % expect) in r.out):
        raise vp.Broken("pass M: configuration %s was expected to violate %s and did not:\n%s"
                        % (name, expect, "\n".join(r.out.splitlines()[-40:])))
    states = r.out.split("\nState ")
    last = states[-1]
    cur = re.search(r"cur = \(([^)]*)\)", last)
    idx = re.search(r"idx = \(([^)]*)\)", last)
    cex = dict(config=name, violated=expect, trace_states=len(states) - 1,
               last_cur=cur.group(1) if cur else "?", last_idx=idx.group(1) if idx else "?")
    ctx.note("model %s: expected counterexample to %s after %d steps: cur = (%s) idx = (%s)"
             % (name, expect, cex["trace_states"], cex["last_cur"], cex["last_idx"]))
    return cex


# ------------------------------------------------------------------------------- pass G
def gen(ctx, privmod, triplemod, variants, reps):
    cfg = "Gen_c17_run.cfg"
    open(ctx.path("spec", cfg), "w").write(
        "SPECIFICATION Spec\nCONSTANTS\n  Parts = {\"alone\", \"pair\", \"triple\", \"cold\"}\n  Seed = %d\n  NStmt = %d\n"
        "  NAux = %d\n  PrivMod = %d\n  TripleMod = %d\n  Variants = %d\n  Reps = %d\nCHECK_DEADLOCK FALSE\n"
        % (ctx.seed % 1000, NSTMT, NAUX, privmod, triplemod, variants, reps))
    cf = ctx.path("cases_all.ndjson")
    r = ctx.tlc("Gen_c17", cfg, env={"CASE_FILE": cf}, workers=1, timeout=900)
    cases = ctx.read_ndjson(cf)
    if not cases:
        raise vp.Broken("generator produced no cases")
    return cases, r


# ------------------------------------------------------------------------------- driver
def drive(ctx, exe, cases, tag, timeout=1500):
    """run the race-instrumented driver on `cases` in ONE process; returns observation records.
    A process killed by the Go runtime's own 'concurrent map' fault is an observation of the
    schedule that was running (the journal names it); the remaining cases run in a new process."""
    out = []
    todo = list(cases)
    restarts = 0
    while todo:
        n = restarts
        cf, of = ctx.path("cases_%s_%d.ndjson" % (tag, n)), ctx.path("obs_%s_%d.ndjson" % (tag, n))
        racelog, journal = ctx.path("race_%s_%d" % (tag, n)), ctx.path("journal_%s_%d" % (tag, n))
        ctx.write_ndjson(cf, todo)
        env = vp.go_env()
        env.update(VERIF_SEED=str(ctx.seed), GOMAXPROCS="8", C17_RACELOG=racelog, C17_JOURNAL=journal,
                   GORACE="halt_on_error=0 exitcode=0 atexit_sleep_ms=0 suppress_equal_stacks=0 "
                          "suppress_equal_addresses=0 log_path=" + racelog)
        try:
            p = subprocess.run([exe, "c17", cf, of], stdout=subprocess.PIPE, stderr=subprocess.STDOUT, text=True,
                               timeout=timeout, env=env, errors="replace")
        except subprocess.TimeoutExpired:
            raise vp.Broken("driver timeout (c17 %s)" % tag)
        if p.returncode == 0:
            out.extend(ctx.read_ndjson(of))
            break
        m = re.search(r"fatal error: (concurrent map[^\n]*)", p.stdout)
        if not m:
            raise vp.Broken("driver c17 %s failed rc=%d:\n%s" % (tag, p.returncode, p.stdout[-3000:]))
        done, begun = [], None
        if os.path.exists(journal):
            for line in open(journal, encoding="utf-8", errors="replace"):
                line = line.strip()
                if line.startswith("B "):
                    begun = int(line[2:])
                elif line:
                    done.append(json.loads(line))
                    begun = None
        if begun is None or begun > len(todo):
            raise vp.Broken("driver c17 %s died outside a case:\n%s" % (tag, p.stdout[-3000:]))
        out.extend(done)
        crashed = dict(todo[begun - 1])
        crashed["obs"] = {"crash": m.group(1).strip().replace(" ", "-"), "race_on": 1}
        out.append(crashed)
        ctx.note("driver %s: the runtime aborted the process during case %s (%s)" % (tag, crashed.get("ops"), m.group(1)))
        todo = todo[begun:]
        restarts += 1
        if restarts > MAX_CRASH_RESTARTS:
            ctx.note("driver %s: %d cases not run after %d aborts" % (tag, len(todo), restarts))
            break
    return out


def machinery(recs):
    """what must hold for the observations to mean anything (exit 2 otherwise)"""
    for r in recs:
        o = r["obs"]
        if "harness_panic" in o or "hang" in o:
            raise vp.Broken("the c17 driver itself failed on %s: %s" % (
                json.dumps({k: v for k, v in r.items() if k != "obs"}), o))
        if o.get("race_on") != 1:
            raise vp.Broken("the driver is not race-instrumented (go build -race)")
        if r["kind"] == "selftest" and o.get("races", 0) < 1:
            raise vp.Broken("race detector self-test: a deliberate race in the harness was not reported "
                            "(GORACE log_path not honoured?)")


def collect(ctx, exe, cases):
    seen, uniq = set(), []
    for c in cases:                                  # the driver numbers distinct cases; keep positions = ids
        k = json.dumps(c, sort_keys=True)
        if k not in seen:
            seen.add(k)
            uniq.append(c)
    cases = uniq
    warm = [dict(kind="selftest")] + [c for c in cases if c.get("cold") != 1]
    cold = [c for c in cases if c.get("cold") == 1]
    recs = drive(ctx, exe, warm, "warm")
    for i, c in enumerate(cold):                     # each cold schedule is the first use of the package in its process
        recs.extend(drive(ctx, exe, [c], "cold%d" % i, timeout=300))
    for i, r in enumerate(recs):
        r["id"] = i + 1
    machinery(recs)
    return recs


def summarize(r):
    o = r["obs"]
    s = {k: r[k] for k in ("kind", "ops", "sharing", "g", "cold", "stmt") if r.get(k) is not None}
    if r["kind"] == "alone":
        s.update(writes=o.get("writes"), confirm_races=o.get("confirm_races"))
    elif "res" in o:
        s.update(races=o.get("races"), results_equal_twins=all(x["got"] == [x["twin"]] for x in o["res"]))
    return s


def run(ctx):
    ctx.stage_specs(*SPECDIRS)
    q = ctx.quick
    ctx.rule = ("A case is a schedule generated by TLC (Gen_c17): an operation alone (write-set detection), every unordered "
                "pair of the 33 operations of the footprint table incl. the same operation twice, sampled triples, on a shared "
                "or on private ASTs, 2-8 goroutines, and every operation as first use of the package in a fresh process. "
                "Distinct = distinct case records. Non-trivial (counted by the TLA+ judge from the footprint table) = two "
                "goroutines of the case touch a common shared location (package table or shared AST node); for an operation "
                "alone: it touches a shared location.")
    ctx.assumptions = ["TLC and the CommunityModules Json/CSV modules",
                       "the Go race detector (happens-before; no false positives; a race not exercised in a run is not "
                       "reported) is the recording instrument for conflicting accesses; its self-test runs first",
                       "interleavings inside one operation are not controlled by the driver",
                       "the AST snapshot (harness/project.go + pointer structure) and the package fingerprint through "
                       "Language / Lookup / probes; package variables that are not reachable from outside are covered by "
                       "the detector only"]
    ctx.exhaustive = False
    # ---- pass M
    cex = []
    model(ctx, "listed", "ListedOps", True, True, ["TypeOK", "NoRace", "SameAsSequential"])
    cex.append(model(ctx, "control", "WithControls", True, False, ["TypeOK", "NoRace"], expect="NoRace"))
    model(ctx, "private", "WithControls", False, True, ["TypeOK", "NoRace", "SameAsSequential"],
          procs=2 if q else 3, ncalls=2)
    cex.append(model(ctx, "hyp", "WithHyp", True, False, ["TypeOK", "SameAsSequential"], expect="SameAsSequential"))
    ctx.coverage_extra["expected_counterexamples"] = cex
    # ---- pass G
    cases, r = gen(ctx, privmod=3 if q else 1, triplemod=60 if q else 5, variants=1 if q else 3, reps=3 if q else 10)
    nsched = sum(1 for c in cases if c["kind"] == "sched")
    ctx.note("generated %d cases: %d alone, %d schedules (%d cold)" % (
        len(cases), len(cases) - nsched, nsched, sum(1 for c in cases if c.get("cold") == 1)))
    # ---- pass V
    exe = ctx.build_driver(race=True)
    recs = collect(ctx, exe, cases)
    of = ctx.path("obs_all.ndjson")
    ctx.write_ndjson(of, recs)
    ctx.judge("Judge_c17", "Judge_c17.cfg", of, label="v")
    cx = ctx.coverage_extra
    ctx.note("judged %d records: %d listed schedules, %d control schedules, %d alone; control:memo-race observed on %d "
             "case(s) (expected, outside the property); memo write observed %d time(s)" % (
                 len(recs), cx.get("v.listed_scheds", 0), cx.get("v.control_scheds", 0), cx.get("v.alone_cases", 0),
                 cx.get("v.control_races", 0), cx.get("v.memo_writes", 0)))
    if cx.get("v.memo_writes", 0) == 0:
        # the footprint table says GroupByInterval writes the memo; the code no longer does
        ctx.verdicts.append({"id": 0, "class": "drift:memo-write-not-observed", "sig": "GroupByInterval", "_obsfile": of})
    step = max(1, len(recs) // 5)
    ctx.samples = [summarize(x) for x in recs[1::step]][:5]
    cx["exhaustive_parts"] = ["model listed 3x2", "alone: every operation x every pool statement",
                              "pair: every unordered pair of operations on a shared AST", "cold: every operation"]
    cx["sampled_parts"] = ["triples", "cold pairs"] + (["private-AST variants of pairs"] if q else [])
    return vp.case_finder


def replay(ctx, path):
    rec = json.load(open(path))
    case = rec.get("case")
    if not case:
        raise vp.Broken("replay file has no case")
    case = {k: v for k, v in case.items() if k not in ("obs", "id")}
    ctx.outdir = os.path.join(ctx.outdir, "replay")
    ctx.stage_specs(*SPECDIRS)
    exe = ctx.build_driver(race=True)
    recs = []
    for i in range(5):                               # a race need not show in every run
        recs.extend(drive(ctx, exe, [dict(kind="selftest"), case] if case.get("cold") != 1 else [case], "replay%d" % i, timeout=300))
    for i, r in enumerate(recs):
        r["id"] = i + 1
    machinery(recs)
    of = ctx.path("replay.obs")
    ctx.write_ndjson(of, recs)
    vs = ctx.judge("Judge_c17", "Judge_c17.cfg", of)
    print(json.dumps([summarize(r) for r in recs if r["kind"] != "selftest"], ensure_ascii=False)[:3000])
    if not vs:
        print("replay: record is judged ok on the current tree (5 runs)")
        return 0
    nv, nk, kc = vp.classify(ctx, vp.case_finder)
    return 1 if nv else 0
