"""C08 - durations are parsed exactly or rejected, and formatting is invertible.

pass M  Apalache, symbolic over all of int64 / uint64, on the design specs spec/c08/DurParse.tla
        (checked uint64 accumulation of commit 7063cd7: limit MaxInt64 or MaxInt64+1, per-component
        test n > (limit-mag)/mult, ParseUint numerals) and DurFormat.tla:
          IndBase   Init => Inv
          IndStep   Inv /\ Next => Inv'  and  Inv => Correct   (Correct = Exact /\ Complete /\
                    RejectsUnfit /\ NoNamedShape): by induction, for ANY number of components
          Correct2  the same checked directly from Init for 1..2 components (thorough tier only)
          FmtAll    Parse(Format(d)) = d for ALL d (MinInt64 included), largest dividing unit, 0 -> "0s"
          Weak      vacuity control: with the per-component test dropped `Exact` must be VIOLATED;
                    the counterexamples are replayed against the real ParseDuration as extra cases
pass G  TLC enumerates spellings / values around every overflow boundary (spec/c08/Gen_c08.tla,
        64-bit magnitudes as decimal strings via BigInt), the driver replays them into
        ParseDuration, FormatDuration and ParseStatement; a seeded random driver adds more
pass V  spec/c08/Judge_c08.tla recomputes the exact sums with BigInt and judges every record
"""
import concurrent.futures
import glob
import json
import os

import vp

LEVEL = "model_checking"
SPECDIRS = ("c08",)

MULT_NAME = {1: "ns", 10**3: "u", 10**6: "ms", 10**9: "s", 60 * 10**9: "m", 3600 * 10**9: "h",
             86400 * 10**9: "d", 604800 * 10**9: "w"}

#            label      module       invariant        length  extra args                     expected
APALACHE = [("IndBase", "DurParse", "Inv", 0, ["--cinit=CInit", "--init=Init"], "holds"),
            ("IndStep", "DurParse", "InvAndCorrect", 1, ["--cinit=CInit", "--init=IndInit"], "holds"),
            ("FmtAll", "DurFormat", "FmtAll", 1, [], "holds"),
            ("Weak", "DurParse", "Exact", 4, ["--cinit=CInitWeak", "--max-error=6", "--view=CexView"], "violated")]
# direct bounded check of the same property from Init (1..2 components, ~30 s), thorough tier only.
# (1..3 components, --cinit=CInit --length=4, passes too but needs 4.5-15 min: not part of a tier)
APALACHE_THOROUGH = [("Correct2", "DurParse", "Correct", 3, ["--cinit=CInit2"], "holds")]

QUICK = dict(K=64, J=3, KS=4, J3=1, KS3=1, FE=2, FJ=8, SK=2, rand=(3000, 1500))
THOROUGH = dict(K=1000, J=15, KS=16, J3=7, KS3=8, FE=50, FJ=500, SK=16, rand=(40000, 20000))


def gen_cfg(p):
    return ("SPECIFICATION Spec\nCONSTANTS\n"
            '  Parts = {"thr", "sum2", "sum3", "small", "bad", "fmt", "stmt"}\n'
            + "".join("  %s = %d\n" % (k, p[k]) for k in ("K", "J", "KS", "J3", "KS3", "FE", "FJ", "SK"))
            + "INVARIANTS DesignExact\nCHECK_DEADLOCK FALSE\n")


def itf_int(v):
    if isinstance(v, dict) and "#bigint" in v:
        return int(v["#bigint"])
    return int(v)


def apalache_run(ctx, module, inv, length, extra, timeout=420):
    rc, out, outdir = ctx.apalache(module, ["--inv=" + inv, "--length=%d" % length] + extra, timeout=timeout)
    cex = []
    if rc == 12:
        for f in sorted(glob.glob(os.path.join(outdir, "*", "*", "violation*.itf.json"))):
            if os.path.basename(f) == "violation.itf.json":
                continue  # copy of the first one
            cex.append(json.load(open(f))["states"][-1])
        if not cex:
            raise vp.Broken("Apalache reported a violation of %s!%s but wrote no trace" % (module, inv))
    elif rc != 0:
        raise vp.Broken("Apalache failed on %s --inv=%s (rc=%d):\n%s" % (module, inv, rc, out[-3000:]))
    return cex


def cex_case(module, label, s):
    """a counterexample state of a design spec as a case for the real code"""
    inv = label
    if module == "DurParse":
        comps = []
        for c in s["comps"]:
            m = itf_int(c["m"])
            if m not in MULT_NAME:
                raise vp.Broken("Apalache counterexample uses multiplier %d" % m)
            comps.append({"n": str(itf_int(c["n"])), "u": MULT_NAME[m]})
        return {"k": "parse", "fam": "apalache:" + inv, "neg": bool(s["neg"]), "comps": comps}
    return {"k": "format", "fam": "apalache:" + inv, "d": str(itf_int(s["d"]))}


def run(ctx):
    p = QUICK if ctx.quick else THOROUGH
    ctx.stage_specs(*SPECDIRS)
    ctx.rule = ("Cases are duration spellings (sign + sequence of <numeral><unit> components), duration values and "
                "statements carrying such a spelling as a literal; TLC enumerates them once each (BFS, driver "
                "de-duplicates by hash), a seeded driver adds random ones. Non-trivial (counted by the TLA+ judge) = "
                "a spelling with >= 2 components or a total >= 2^31 ns (in particular every total that does not fit), "
                "or a formatted value of magnitude >= 1000 ns.")
    ctx.assumptions = ["TLC 1.8 with CommunityModules Json/CSV; Apalache 0.58 (symbolic runs over unbounded integers "
                       "with explicit int64 wrap-around)", "spec/common/BigInt.tla exact arithmetic (validated against "
                       "Python integers; threshold table and mod-2^64 reduction self-checked by ASSUME at start-up)",
                       "the Go driver computes the divisibility certificates q, r with / and %; the judge verifies "
                       "them by multiplication", "statement contexts are fixed templates; only the literal varies"]
    runs = APALACHE + ([] if ctx.quick else APALACHE_THOROUGH)
    pool = concurrent.futures.ThreadPoolExecutor(max_workers=len(runs) + 1)
    futs = [(lb, m, inv, exp, pool.submit(apalache_run, ctx, m, inv, ln, extra, 420 if ctx.quick else 1500))
            for lb, m, inv, ln, extra, exp in runs]
    build = pool.submit(ctx.build_driver)

    # ---- pass G: generate
    open(ctx.path("spec", "Gen_c08_run.cfg"), "w").write(gen_cfg(p))
    base = ctx.path("cases")
    r = ctx.tlc("Gen_c08", "Gen_c08_run.cfg", env={"CASE_FILE": base}, workers=4, timeout=1500)
    if r.invariant_violated:
        raise vp.Broken("the BigInt design twin is not exact on a generated spelling (Gen_c08!DesignExact): " + r.out[-2000:])
    build.result()
    ncase = {kind: ctx.count_lines(base + "." + kind) for kind in ("parse", "format", "stmt")}
    ctx.note("generation: TLC %d states in %.0fs; cases parse=%d format=%d stmt=%d" % (
        r.distinct, r.wall, ncase["parse"], ncase["format"], ncase["stmt"]))

    # ---- pass M: collect Apalache results; every counterexample becomes a case for the real code
    # (the slow direct check of the thorough tier is collected after the judge)
    replay_cases = []
    late = []
    for lb, m, inv, exp, f in futs:
        if lb == "Correct2":
            late.append((lb, m, inv, exp, f))
            continue
        cex = f.result()
        ctx.note("Apalache %s (%s!%s): %s (expected: %s)" % (
            lb, m, inv, "%d counterexample(s)" % len(cex) if cex else "no error", exp))
        ctx.coverage_extra["apalache_" + lb] = "violated" if cex else "holds"
        if cex and lb in ("IndBase", "IndStep"):
            # a state of the induction is no behaviour of the design: nothing to replay
            raise vp.Broken("inductive proof of DurParse!Correct failed at %s: %s" % (lb, json.dumps(cex[0])[:1500]))
        if exp == "violated" and not cex:
            raise vp.Broken("vacuity control failed: the weakened design spec (%s, Weak = TRUE) satisfies %s" % (m, inv))
        for s in cex:
            replay_cases.append(cex_case(m, lb, s))

    # ---- drive: one run over all generated cases + the model counterexamples + seeded random cases
    allcases = ctx.path("cases_all.ndjson")
    with open(allcases, "w", encoding="utf-8") as out:
        for kind in ("parse", "format", "stmt"):
            with open(base + "." + kind, encoding="utf-8") as f:
                for line in f:
                    out.write(line)
        for c in replay_cases:
            out.write(json.dumps(c, separators=(",", ":")) + "\n")
    of = ctx.path("obs_all.ndjson")
    ctx.drive("c08rand", allcases, of, args=list(p["rand"]))
    n = ctx.count_lines(of)
    ctx.note("driven: %d distinct cases (%d generated by TLC, %d model counterexamples, rest seeded random, seed %d)" % (
        n, sum(ncase.values()), len(replay_cases), ctx.seed))

    # ---- pass V: judge (chunks run in parallel JVMs)
    chunk = min(20000, max(3000, -(-n // 6)))
    vs = ctx.judge("Judge_c08", "Judge_c08.cfg", of, chunk=chunk)
    byid = {}
    for v in vs:
        byid.setdefault(v["id"], v)
    nrec = 0
    for line in open(of, encoding="utf-8"):
        if '"apalache:' not in line:
            if len(ctx.samples) < 5 and '"k":"parse"' in line and nrec % 4001 == 7:
                x = json.loads(line)
                ctx.samples.append(dict(text=x["obs"].get("text"), val=x["obs"].get("val", ""), err=x["obs"].get("err", "")))
            nrec += 1
            continue
        rec = json.loads(line)
        v = byid.get(rec["id"])
        what = "%s %s -> %s" % (rec["fam"], rec["obs"].get("text", rec.get("d")),
                                rec["obs"].get("val", rec["obs"].get("err", rec["obs"].get("back", "?"))))
        if v is None and rec["fam"] != "apalache:Weak":
            # a counterexample to an invariant that must hold, and the real code is right: the design spec is wrong
            raise vp.Broken("model counterexample not reproduced on the real code (the design spec is wrong): " + what)
        ctx.note("M-replay: %s : %s" % (what, v["class"] if v else "ok (the real code is right where the weakened design fails)"))
    for lb, m, inv, exp, f in late:
        cex = f.result()
        ctx.note("Apalache %s (%s!%s): %s (expected: %s)" % (
            lb, m, inv, "%d counterexample(s)" % len(cex) if cex else "no error", exp))
        ctx.coverage_extra["apalache_" + lb] = "violated" if cex else "holds"
        if cex:
            raise vp.Broken("the design spec violates %s!%s for <= 2 components although the inductive proof "
                            "went through: %s" % (m, inv, json.dumps(cex_case(m, lb, cex[0]))))
    pool.shutdown()
    broken = [v for v in ctx.verdicts if str(v.get("class", "")).startswith("harness:")]
    if broken:
        raise vp.Broken("unusable observation records: " + vp.short(broken[0]))
    cx = ctx.coverage_extra
    if (ctx.nontrivial == 0 or cx.get("unfit", 0) == 0 or cx.get("accepted", 0) == 0
            or min(cx.get(k, 0) for k in ("parse", "stmt", "format")) == 0):
        raise vp.Broken("vacuous run: no non-trivial / unfit / accepted records")
    ctx.exhaustive = False      # the random part is sampled; the TLC parts are BFS-complete inside their bounds
    ctx.coverage_extra["exhaustive_parts"] = ["thr", "sum2", "sum3", "small", "bad", "fmt", "stmt"]
    ctx.coverage_extra["sampled_parts"] = ["rand"]
    ctx.coverage_extra["symbolic_parts"] = ["DurParse (inductive: any number of components, numerals up to 65 bits, "
                                            "all units, both signs)", "DurFormat (all int64 values)"]
    ctx.coverage_extra["bounds"] = {k: v for k, v in p.items() if k != "rand"}
    return vp.case_finder


replay = vp.generic_replay("c08", "Judge_c08", "Judge_c08.cfg", SPECDIRS)
