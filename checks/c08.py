"""C08 - durations are parsed exactly or rejected, and formatting is invertible.

pass M  Apalache, symbolic over all of int64, on the design specs spec/c08/DurParse.tla
        (component loop with wrap-around, `d < 0 && !neg`) and DurFormat.tla:
          Exact     accepted => result = exact sum            expected VIOLATED (known defect);
                    every counterexample is replayed against the real ParseDuration
          Safe      the design fails only in the two named shapes, never rejects a fitting total
          FmtAll    Parse(Format(d)) = d, largest dividing unit, 0 -> "0s", for all d # MinInt64;
                    the excluded value really does not come back
pass G  TLC enumerates spellings / values around every overflow boundary (spec/c08/Gen_c08.tla,
        64-bit magnitudes as decimal strings via BigInt), the driver replays them into
        ParseDuration, FormatDuration and ParseStatement; a seeded random driver adds more
pass V  spec/c08/Judge_c08.tla recomputes the exact sums with BigInt and judges every record
"""
import concurrent.futures
import glob
import json
import os

import vp

LEVEL = "model_checking"
SPECDIRS = ("c08",)

MULT_NAME = {1: "ns", 10**3: "u", 10**6: "ms", 10**9: "s", 60 * 10**9: "m", 3600 * 10**9: "h",
             86400 * 10**9: "d", 604800 * 10**9: "w"}

#            module       invariant   length  extra args                                   expected
APALACHE = [("DurParse", "Exact", 4, ["--cinit=CInit", "--max-error=6", "--view=CexView"], "violated"),
            ("DurParse", "Safe", 4, ["--cinit=CInit"], "holds"),
            ("DurFormat", "FmtAll", 1, [], "holds")]

QUICK = dict(K=64, J=3, KS=4, J3=1, KS3=1, FE=2, FJ=8, SK=2, rand=(3000, 1500))
THOROUGH = dict(K=1000, J=15, KS=16, J3=7, KS3=8, FE=50, FJ=500, SK=16, rand=(40000, 20000))


def gen_cfg(p):
    return ("SPECIFICATION Spec\nCONSTANTS\n"
            '  Parts = {"thr", "sum2", "sum3", "small", "bad", "fmt", "stmt"}\n'
            + "".join("  %s = %d\n" % (k, p[k]) for k in ("K", "J", "KS", "J3", "KS3", "FE", "FJ", "SK"))
            + "INVARIANTS DesignOnlyKnown\nCHECK_DEADLOCK FALSE\n")


def itf_int(v):
    if isinstance(v, dict) and "#bigint" in v:
        return int(v["#bigint"])
    return int(v)


def apalache_run(ctx, module, inv, length, extra):
    rc, out, outdir = ctx.apalache(module, ["--inv=" + inv, "--length=%d" % length] + extra, timeout=420)
    cex = []
    if rc == 12:
        for f in sorted(glob.glob(os.path.join(outdir, "*", "*", "violation*.itf.json"))):
            if os.path.basename(f) == "violation.itf.json":
                continue  # copy of the first one
            cex.append(json.load(open(f))["states"][-1])
        if not cex:
            raise vp.Broken("Apalache reported a violation of %s!%s but wrote no trace" % (module, inv))
    elif rc != 0:
        raise vp.Broken("Apalache failed on %s --inv=%s (rc=%d):\n%s" % (module, inv, rc, out[-3000:]))
    return cex


def cex_case(module, inv, s):
    """a counterexample state of a design spec as a case for the real code"""
    if module == "DurParse":
        comps = []
        for c in s["comps"]:
            m = itf_int(c["m"])
            if m not in MULT_NAME:
                raise vp.Broken("Apalache counterexample uses multiplier %d" % m)
            comps.append({"n": str(itf_int(c["n"])), "u": MULT_NAME[m]})
        return {"k": "parse", "fam": "apalache:" + inv, "neg": bool(s["neg"]), "comps": comps}
    return {"k": "format", "fam": "apalache:" + inv, "d": str(itf_int(s["d"]))}


def run(ctx):
    p = QUICK if ctx.quick else THOROUGH
    ctx.stage_specs(*SPECDIRS)
    ctx.rule = ("Cases are duration spellings (sign + sequence of <numeral><unit> components), duration values and "
                "statements carrying such a spelling as a literal; TLC enumerates them once each (BFS, driver "
                "de-duplicates by hash), a seeded driver adds random ones. Non-trivial (counted by the TLA+ judge) = "
                "a spelling with >= 2 components or a total >= 2^31 ns (in particular every total that does not fit), "
                "or a formatted value of magnitude >= 1000 ns.")
    ctx.assumptions = ["TLC 1.8 with CommunityModules Json/CSV; Apalache 0.58 (symbolic runs over unbounded integers "
                       "with explicit int64 wrap-around)", "spec/common/BigInt.tla exact arithmetic (validated against "
                       "Python integers; threshold table and mod-2^64 reduction self-checked by ASSUME at start-up)",
                       "the Go driver computes the divisibility certificates q, r with / and %; the judge verifies "
                       "them by multiplication", "statement contexts are fixed templates; only the literal varies"]
    pool = concurrent.futures.ThreadPoolExecutor(max_workers=5)
    futs = [(m, inv, exp, pool.submit(apalache_run, ctx, m, inv, ln, extra)) for m, inv, ln, extra, exp in APALACHE]
    build = pool.submit(ctx.build_driver)

    # ---- pass G: generate
    open(ctx.path("spec", "Gen_c08_run.cfg"), "w").write(gen_cfg(p))
    base = ctx.path("cases")
    r = ctx.tlc("Gen_c08", "Gen_c08_run.cfg", env={"CASE_FILE": base}, workers=4, timeout=1500)
    if r.invariant_violated:
        raise vp.Broken("BigInt design twin leaves the named deviations (Gen_c08!DesignOnlyKnown): " + r.out[-2000:])
    build.result()
    ncase = {kind: ctx.count_lines(base + "." + kind) for kind in ("parse", "format", "stmt")}
    ctx.note("generation: TLC %d states in %.0fs; cases parse=%d format=%d stmt=%d" % (
        r.distinct, r.wall, ncase["parse"], ncase["format"], ncase["stmt"]))

    # ---- pass M: collect Apalache results; every counterexample becomes a case for the real code
    replay_cases = []
    for m, inv, exp, f in futs:
        cex = f.result()
        ctx.note("Apalache %s!%s: %s (expected: %s)" % (m, inv, "%d counterexample(s)" % len(cex) if cex else "no error", exp))
        ctx.coverage_extra["apalache_%s_%s" % (m, inv)] = "violated" if cex else "holds"
        for s in cex:
            replay_cases.append(cex_case(m, inv, s))
    pool.shutdown()

    # ---- drive: one run over all generated cases + the model counterexamples + seeded random cases
    allcases = ctx.path("cases_all.ndjson")
    with open(allcases, "w", encoding="utf-8") as out:
        for kind in ("parse", "format", "stmt"):
            with open(base + "." + kind, encoding="utf-8") as f:
                for line in f:
                    out.write(line)
        for c in replay_cases:
            out.write(json.dumps(c, separators=(",", ":")) + "\n")
    of = ctx.path("obs_all.ndjson")
    ctx.drive("c08rand", allcases, of, args=list(p["rand"]))
    n = ctx.count_lines(of)
    ctx.note("driven: %d distinct cases (%d generated by TLC, %d model counterexamples, rest seeded random, seed %d)" % (
        n, sum(ncase.values()), len(replay_cases), ctx.seed))

    # ---- pass V: judge (chunks run in parallel JVMs)
    chunk = min(20000, max(3000, -(-n // 6)))
    vs = ctx.judge("Judge_c08", "Judge_c08.cfg", of, chunk=chunk)
    byid = {}
    for v in vs:
        byid.setdefault(v["id"], v)
    nrec = 0
    for line in open(of, encoding="utf-8"):
        if '"apalache:' not in line:
            if len(ctx.samples) < 5 and '"k":"parse"' in line and nrec % 4001 == 7:
                x = json.loads(line)
                ctx.samples.append(dict(text=x["obs"].get("text"), val=x["obs"].get("val", ""), err=x["obs"].get("err", "")))
            nrec += 1
            continue
        rec = json.loads(line)
        v = byid.get(rec["id"])
        what = "%s %s -> %s" % (rec["fam"], rec["obs"].get("text", rec.get("d")),
                                rec["obs"].get("val", rec["obs"].get("err", rec["obs"].get("back", "?"))))
        if v is None:
            raise vp.Broken("model counterexample not reproduced on the real code and not explained by "
                            "drift (the design spec is wrong): " + what)
        ctx.note("M-replay: %s : %s" % (what, v["class"]))
    broken = [v for v in ctx.verdicts if str(v.get("class", "")).startswith("harness:")]
    if broken:
        raise vp.Broken("unusable observation records: " + vp.short(broken[0]))
    cx = ctx.coverage_extra
    if (ctx.nontrivial == 0 or cx.get("unfit", 0) == 0 or cx.get("accepted", 0) == 0
            or min(cx.get(k, 0) for k in ("parse", "stmt", "format")) == 0):
        raise vp.Broken("vacuous run: no non-trivial / unfit / accepted records")
    ctx.exhaustive = False      # the random part is sampled; the TLC parts are BFS-complete inside their bounds
    ctx.coverage_extra["exhaustive_parts"] = ["thr", "sum2", "sum3", "small", "bad", "fmt", "stmt"]
    ctx.coverage_extra["sampled_parts"] = ["rand"]
    ctx.coverage_extra["symbolic_parts"] = ["DurParse (<= 3 components, all int64 numerals, all units, both signs)",
                                            "DurFormat (all int64 values)"]
    ctx.coverage_extra["bounds"] = {k: v for k, v in p.items() if k != "rand"}
    return vp.case_finder


replay = vp.generic_replay("c08", "Judge_c08", "Judge_c08.cfg", SPECDIRS)
