"""Shared generation steps for the checks that use spec/grammar (C01, C02, C13, C16)."""
import vp

SPECDIRS = ("grammar", "c03")
ALL_KINDS = ['"selectone"', '"delete"', '"dropseries"', '"showseries"', '"seriescard"', '"meascard"', '"showmeas"', '"simple"',
             '"showrp"', '"tagkeycard"', '"tagkeys"', '"tagvalues"', '"tagvaluescard"', '"fieldkeycard"', '"fieldkeys"', '"names"',
             '"cq"', '"createdb"', '"createuser"', '"createrp"', '"createsub"', '"explain"', '"grant"', '"alter"', '"kill"']


def _run(ctx, module, name, consts, timeout=2400, workers=4):
    cfg = "%s_%s.cfg" % (module, name)
    text = "SPECIFICATION Spec\nCONSTANTS\n" + "".join("  %s = %s\n" % kv for kv in consts.items()) + "CHECK_DEADLOCK FALSE\n"
    open(ctx.path("spec", cfg), "w").write(text)
    cf = ctx.path("cases_%s.ndjson" % name)
    r = ctx.tlc(module, cfg, env={"CASE_FILE": cf}, workers=workers, timeout=timeout)
    n = ctx.count_lines(cf)
    if n == 0:
        raise vp.Broken("generator %s/%s produced no cases" % (module, name))
    return cf, r, n


def gen_statements(ctx, lattice):
    """every option choice of every statement kind + the SELECT clause lattice (quick or full)"""
    out = []
    cf, r, n = _run(ctx, "Gen_stmt", "kinds", {"KindsUsed": "{%s}" % ", ".join(ALL_KINDS)})
    ctx.note("grammar: %d statements over %d statement kinds (one option per clause slot, all choices)" % (n, len(ALL_KINDS)))
    out.append(("kinds", cf))
    cf, r, n = _run(ctx, "Gen_stmt", "lattice", {"KindsUsed": '{"%s"}' % lattice})
    ctx.note("grammar: SELECT clause lattice %s: %d statements" % (lattice, n))
    out.append(("lattice", cf))
    return out


def gen_deep(ctx, num, maxd=4):
    """random deep expression trees (TLC -simulate) placed as field / condition / call argument"""
    cfg = "Gen_deep_sim.cfg"
    open(ctx.path("spec", cfg), "w").write("SPECIFICATION Spec\nCONSTANTS\n  MaxD = %d\nCHECK_DEADLOCK FALSE\n" % maxd)
    cf = ctx.path("cases_deep.ndjson")
    ctx.tlc("Gen_deep", cfg, env={"CASE_FILE": cf}, workers=1, simulate="num=%d" % num, depth=2 * maxd + 3, timeout=1200,
            count=False)
    n = ctx.count_lines(cf)
    if n == 0:
        raise vp.Broken("generator Gen_deep produced no cases")
    ctx.note("grammar: %d random deep expression statements (<= %d constructor applications over all leaves and operators)" % (n, maxd))
    return cf


def gen_spellings(ctx, comments):
    subs = '{"fields", "group", "fill", "order"}' if ctx.quick else '{"fields", "into", "from", "where", "group", "fill", "order", "limit", "tz"}'
    cf, r, n = _run(ctx, "Gen_spell", "spell", {"WithComments": "TRUE" if comments else "FALSE", "AllOptionSubs": subs,
                                                "KindsUsed": "{%s}" % ", ".join(ALL_KINDS + ['"selectq"'])})
    ctx.note("grammar: %d single-deviation spellings (keyword case, identifier quoting, gap variants%s)" % (
        n, " incl. comments" if comments else ""))
    return cf


def gen_pairs(ctx):
    cf, r, cnt = _run(ctx, "Gen_pairs", "pairs", {"KindsUsed": "{%s}" % ", ".join(ALL_KINDS)}, workers=1)   # long lines: one writer
    ctx.note("grammar: %d queries placing the shortest and the longest statement of every kind first / second / alone" % cnt)
    return cf


def gen_names(ctx):
    """awkward names and string values in every name / value position of the shortest and longest statement of every kind"""
    cfg = "Gen_names_all.cfg"
    open(ctx.path("spec", cfg), "w").write("SPECIFICATION NSpec\nCONSTANTS\n  KindsUsed = {%s}\nCHECK_DEADLOCK FALSE\n" % ", ".join(ALL_KINDS))
    cf = ctx.path("cases_names.ndjson")
    ctx.tlc("Gen_names", cfg, env={"CASE_FILE": cf, "DICT_FILE": ctx.source_dict()}, workers=4, timeout=1200)
    n = ctx.count_lines(cf)
    if n < 1000:
        raise vp.Broken("generator Gen_names produced only %d cases" % n)
    ctx.note("grammar: %d statements with an awkward name or string value in one position (every position of every kind)" % n)
    return cf


def gen_dict(ctx):
    """the source dictionary (spec/common/Dict.tla) as names, string values and counts in every position of the shortest statements"""
    cfg = "Gen_names_dict.cfg"
    open(ctx.path("spec", cfg), "w").write("SPECIFICATION DSpec\nCONSTANTS\n  KindsUsed = {%s}\nCHECK_DEADLOCK FALSE\n" % ", ".join(ALL_KINDS))
    cf = ctx.path("cases_dict.ndjson")
    ctx.tlc("Gen_names", cfg, env={"CASE_FILE": cf, "DICT_FILE": ctx.source_dict()}, workers=4, timeout=1200)
    n = ctx.count_lines(cf)
    if n < 5000:
        raise vp.Broken("generator Gen_names (dictionary) produced only %d cases" % n)
    ctx.note("grammar: %d statements with a constant of the tree's own source as name, string value or count" % n)
    return cf


def gen_queries(ctx, n):
    cf, r, cnt = _run(ctx, "Gen_query", "query", {"N": n})
    ctx.note("grammar: %d queries of up to %d statements x separators" % (cnt, n))
    return cf
