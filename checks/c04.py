"""C04 - parsing is total: any input yields an AST or an error, never a crash or hang."""
import vp
from checks import grammar_common as g

LEVEL = "model_checking"
SPECDIRS = g.SPECDIRS + ("c04",)


def gen(ctx, module, name, consts, workers=4, invariants=""):
    cfg = "%s_%s.cfg" % (module, name)
    text = "SPECIFICATION Spec\nCONSTANTS\n" + "".join("  %s = %s\n" % kv for kv in consts.items())
    if invariants:
        text += "INVARIANTS %s\n" % invariants
    text += "CHECK_DEADLOCK FALSE\n"
    open(ctx.path("spec", cfg), "w").write(text)
    cf = ctx.path("cases_%s.ndjson" % name)
    r = ctx.tlc(module, cfg, env={"CASE_FILE": cf}, workers=workers, timeout=2400, expect_ok=False)
    if r.invariant_violated or not r.ok:
        raise vp.Broken("pass M failed (%s %s):\n%s" % (module, name, "\n".join(r.out.splitlines()[-40:])))
    return cf, r


def run(ctx):
    ctx.stage_specs(*SPECDIRS)
    ctx.build_driver()
    ctx.rule = ("TLC enumerates (a) every sequence of <=N token classes of the expression-parser design spec (ring invariants "
                "model-checked on each; each also parsed by the real ParseExpr and compared with the model), (b) every sequence "
                "of <=N 'wild' token spellings tight and spaced, once per parameter binding kind when a placeholder occurs, "
                "(c) every single-token mutation of 24 base statements, (d) scalable families at doubling sizes; plus seeded "
                "random byte strings. Every input goes through ParseQuery, ParseStatement and ParseExpr under recover and a "
                "hook-counted step budget. Distinct = distinct (input, binding); non-trivial = accepted by at least one entry "
                "point, or a mutation/growth record (counted by the TLA+ judge).")
    ctx.assumptions = ["TLC 1.8 + CommunityModules", "step counts come from the verif-tagged scanner hooks; loops that never touch "
                       "the scanner are bounded by a 60 s per-case watchdog in the driver",
                       "coverage-guided fuzzing is outside this technique family and is not used"]
    q = ctx.quick
    parts = []
    # (a) design spec of the expression parser: ring discipline (pass M) + binding to ParseExpr
    cf, r = gen(ctx, "Gen_c04m", "model", {"N": 4, "EmitCases": "TRUE"}, invariants="RingOK")
    parts.append(("model", cf))
    ctx.note("model: %d class sequences (<=4) satisfy RingOK in the design spec" % (r.distinct - 1))
    if not q:
        _, r5 = gen(ctx, "Gen_c04m", "model5", {"N": 5, "EmitCases": "FALSE"}, invariants="RingOK")
        ctx.note("model: %d class sequences (<=5) satisfy RingOK in the design spec (pass M only)" % (r5.distinct - 1))
    # (b) wild spellings
    cf, r = gen(ctx, "Gen_c04w", "seq", {"N": 2 if q else 3, "Part": '"seq"', "Sizes": "{64}"})
    parts.append(("seq", cf))
    # (c) mutations
    cf, r = gen(ctx, "Gen_c04w", "mut", {"N": 1, "Part": '"mut"', "Sizes": "{64}"})
    parts.append(("mut", cf))
    cf, r = gen(ctx, "Gen_c04w", "mutws", {"N": 1, "Part": '"mutws"', "Sizes": "{64}"})
    parts.append(("mutws", cf))
    # (c') every statement of the Grammar corpus (25 kinds x all clause options) and the awkward-name statements: accepted
    # statements exercise the validation the parser itself performs after parsing (continuous queries, durations, limits)
    for name, cf in g.gen_statements(ctx, "selectq")[:1] + [("names", g.gen_names(ctx))]:
        parts.append(("grammar_" + name, cf))
    # (d) growth
    # small sizes too (1..8: the 3-slot rings, the 3 segments of a name), then doubling
    sizes = "{1, 2, 3, 4, 5, 6, 7, 8, 64, 128, 256, 512}" if q else "{1, 2, 3, 4, 5, 6, 7, 8, 31, 32, 33, 64, 128, 256, 512, 1024, 2048, 4096, 8192, 50000}"
    cf, r = gen(ctx, "Gen_c04w", "grow", {"N": 1, "Part": '"grow"', "Sizes": sizes})
    parts.append(("grow", cf))
    for name, cf in parts:
        of = ctx.path("obs_%s.ndjson" % name)
        ctx.drive("c04", cf, of, timeout=3000)
        ctx.note("%s: %d cases" % (name, ctx.count_lines(of)))
        ctx.judge("Judge_c04", "Judge_c04.cfg", of, label=name)
        if name == "mut":
            recs = ctx.read_ndjson(of)
            ctx.samples = [dict(text=x["obs"].get("text"), bind=x.get("bind"),
                                outcome={e: x["obs"][e]["out"] for e in ("query", "stmt", "expr")}) for x in recs[7:20000:4100]]
    of = ctx.path("obs_bytes.ndjson")
    ctx.drive("c04", None, of, args=[3000 if q else 60000, 80 if q else 200], timeout=3000)
    ctx.judge("Judge_c04", "Judge_c04.cfg", of, label="bytes")
    ctx.note("bytes: %d random byte strings" % ctx.count_lines(of))
    ctx.exhaustive = False
    ctx.coverage_extra["exhaustive_parts"] = ["model", "seq", "mut", "grow"]
    ctx.coverage_extra["sampled_parts"] = ["bytes"]
    return vp.case_finder


replay = vp.generic_replay("c04", "Judge_c04", "Judge_c04.cfg", SPECDIRS)
