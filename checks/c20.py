"""C20 - result column names are complete, stable and unambiguous."""
import vp

LEVEL = "model_checking"
SPECDIRS = ("c20",)
INV = "MAll"
DIAG = "MComplete MAliases MSuffixed MDistinct MLemma"   # the conjuncts of MAll, re-checked one by one when MAll fails

POOL = '{"a", "a_1", "a_2", "a_1_1", "mean", "top"}'
POOLX = '{"a", "a_1", "a_2", "a_1_1", "mean", "top", "a_a_1"}'
ALLTM = '{"default", "omit", "alias", "aliasclash", "rewrite", "rewrite_last", "rewrite_noalias", "omit_alias"}'


def cfg(n, names, aliases, maxalias, forms='{"ref"}', tags="TagsNone", tms='{"default"}', intos="{FALSE}", emit=True):
    return ("SPECIFICATION Spec\nCONSTANTS\n  N = %d\n  Names = %s\n  Aliases = %s\n  MaxAlias = %d\n  Forms = %s\n"
            "  TagSeqs <- %s\n  TimeModes = %s\n  Intos = %s\n  Emit = %s\nINVARIANTS %s\nCHECK_DEADLOCK FALSE\n"
            % (n, names, aliases, maxalias, forms, tags, tms, intos, "TRUE" if emit else "FALSE", INV))


def gen(ctx, name, text, simulate=None, depth=None):
    c = "Gen_c20_%s.cfg" % name
    open(ctx.path("spec", c), "w").write(text)
    cf = ctx.path("cases_%s.ndjson" % name)
    r = ctx.tlc("Gen_c20", c, env={"CASE_FILE": cf, "DICT_FILE": ctx.source_dict()}, workers=1 if (name.startswith("reps") or simulate) else 4, simulate=simulate, depth=depth, timeout=2400,
                expect_ok=False)
    if r.invariant_violated or not r.ok:
        which = ""
        if r.invariant_violated:
            open(ctx.path("spec", c), "w").write(text.replace("INVARIANTS " + INV, "INVARIANTS " + DIAG))
            d = ctx.tlc("Gen_c20", c, env={"CASE_FILE": cf + ".diag"}, workers=4, timeout=2400, expect_ok=False, count=False)
            which = "\n".join(l for l in d.out.splitlines() if "is violated" in l)
            r = d if d.invariant_violated else r
        raise vp.Broken("pass M failed (%s): the transcribed ColumnNames algorithm violates the property on some field "
                        "list: %s\n%s" % (name, which, "\n".join(r.out.splitlines()[-60:])))
    return cf, r


def run(ctx):
    ctx.stage_specs(*SPECDIRS)
    ctx.build_driver()
    ctx.rule = ("TLC enumerates field lists field by field (BFS, every list once; simulation for longer lists) over a pool of "
                "default names built to clash with generated suffixes ({a, a_1, a_2, a_1_1, mean, top}), optional aliases "
                "from the same pool, and the expression forms reference / parenthesised / arithmetic / negated / call / "
                "top() and bottom() with tag arguments / literal, with and without INTO and under eight time-column modes; "
                "the transcribed algorithm is model-checked against Complete / AliasesVerbatim / Suffixed / Distinct on every "
                "list; every emitted list is rendered as a SELECT, parsed and run through the real ColumnNames three times "
                "plus once on a fresh parse. Distinct = distinct statements x options; non-trivial = some name is wanted "
                "twice or top()/bottom() contributes tag columns (counted by the TLA+ judge).")
    ctx.assumptions = ["TLC 1.8 + CommunityModules", "the token renderer (harness/render.go)",
                       "a column's own name is what the real ColumnNames returns for its expression standing alone "
                       "(so the check does not pin the default-naming convention)",
                       "top()/bottom() are generated with at least one argument (the zero-argument panic is C13's subject)"]
    q = ctx.quick
    FORMS = '{"ref", "par", "arith", "neg", "arith2", "call", "top", "bottom", "lit"}'
    SOME = '{"a", "a_1", "top"}'
    if q:
        mparts = [("mc4", cfg(4, POOL, POOL, 2, emit=False))]
        gparts = [
            ("lists4", cfg(4, POOL, '{"a", "a_1", "a_2"}', 1), None, None),
            ("forms2", cfg(2, '{"a", "a_1", "mean", "top", "a_a_1"}', '{"a"}', 2, forms=FORMS, tags="TagsFew"), None, None),
            ("opts2", cfg(2, '{"a", "a_1"}', '{"a"}', 1, forms='{"ref", "top", "bottom"}', tags="TagsTwo", tms=ALLTM,
                          intos="{FALSE, TRUE}"), None, None),
            # one name 12 times (suffixes beyond _9), next to the name a suffixed form would take
            ("reps12", cfg(12, '{"a", "a_10"}', '{"a"}', 0), None, None),
            ("sim", cfg(7, POOLX, POOLX, 3, forms=FORMS, tags="TagsFew", tms=ALLTM, intos="{FALSE, TRUE}"), "num=8", 8),
        ]
    else:
        mparts = [("mc5", cfg(5, POOL, '{"a", "a_1", "a_1_1"}', 2, emit=False)),
                  ("mc4", cfg(4, POOL, POOL, 3, emit=False))]
        gparts = [
            ("lists5", cfg(5, POOL, '{"a", "a_1"}', 1), None, None),
            ("lists4", cfg(4, POOLX, '{"a", "a_1", "a_a_1"}', 2), None, None),
            ("forms3", cfg(3, SOME, '{"a", "top"}', 1, forms=FORMS, tags="TagsTwo"), None, None),
            ("opts3", cfg(3, '{"a", "a_1"}', '{"a"}', 1, forms='{"ref", "top", "bottom"}', tags="TagsTwo", tms=ALLTM,
                          intos="{FALSE, TRUE}"), None, None),
            ("reps13", cfg(13, '{"a", "a_10"}', '{"a"}', 0), None, None),
            ("sim", cfg(9, POOLX, POOLX, 4, forms=FORMS, tags="TagsFew", tms=ALLTM, intos="{FALSE, TRUE}"), "num=40", 10),
        ]
    # the source dictionary as call names (one output column each), plain and under INTO / an omitted time column
    # SELECT DISTINCT a [AS x] under every time mode (the keyword form of distinct(), rewritten by RewriteDistinct)
    gparts.append(("distinct", cfg(1, '{"a"}', '{"a", "v"}', 1, forms='{"distinct"}', tms=ALLTM, intos="{FALSE, TRUE}"), None, None))
    gparts.append(("dict", cfg(3, '{"a"}', '{"a"}', 1, tms='{"default", "omit"}', intos="{FALSE, TRUE}").replace("SPECIFICATION Spec", "SPECIFICATION DSpec"), None, None))
    for name, text in mparts:
        _, r = gen(ctx, name, text)
        ctx.note("pass M %s: %d field lists satisfy Complete / AliasesVerbatim / Suffixed / Distinct in the design (%.0fs)"
                 % (name, r.distinct, r.wall))
    allcases = ctx.path("cases_all.ndjson")
    with open(allcases, "w", encoding="utf-8") as out:
        for name, text, sim, depth in gparts:
            cf, r = gen(ctx, name, text, simulate=sim, depth=depth)
            if sim:
                ctx.exhaustive = False
            n = 0
            with open(cf, encoding="utf-8") as f:
                for line in f:
                    out.write(line)
                    n += 1
            ctx.note("%s: %d cases emitted (TLC %d states, %.0fs)" % (name, n, r.distinct, r.wall))
    of = ctx.path("obs_all.ndjson")
    ctx.drive("c20", allcases, of)
    n = ctx.count_lines(of)
    ctx.note("%d distinct cases through the real ColumnNames" % n)
    vs = ctx.judge("Judge_c20", "Judge_c20.cfg", of)
    bad = [v for v in vs if str(v.get("class", "")).startswith("machinery:")]
    if bad:
        raise vp.Broken("generated statements were not accepted as generated (%d), e.g. %s" % (len(bad), vp.short(bad[0])))
    with open(of, encoding="utf-8") as f:
        import json
        for i, line in enumerate(f):
            if i % max(1, n // 5) == 7 and len(ctx.samples) < 5:
                x = json.loads(line)
                ctx.samples.append(dict(text=x["obs"].get("text"), omit=x.get("omit"), talias=x.get("talias"),
                                        columns=x["obs"].get("c1")))
    ctx.coverage_extra["exhaustive_parts"] = [p[0] for p in mparts] + [p[0] for p in gparts if not p[2]]
    ctx.coverage_extra["sampled_parts"] = [p[0] for p in gparts if p[2]]
    return vp.case_finder


replay = vp.generic_replay("c20", "Judge_c20", "Judge_c20.cfg", SPECDIRS)
