"""C09 - constant folding never changes the value of an expression.

Pass M  TLC checks, on every generated case, the design spec (spec/c09/ReduceModel.tla, a transcription of
        ast.go's Reduce) against the property spec (EvalSem.tla, exact 64-bit / IEEE semantics; TimeSem.tla,
        exact instants; zone slice: the zone in force of a valuer composition and the instants of zone-less
        date strings in it): invariants of Gen_c09.tla.
Pass G  the same runs write every case (tree, bindings, split, counterfactual trees, the specs' expectations).
Pass V  the driver runs Reduce / ValuerEval on each case; Judge_c09.tla decides every record.
"""
import copy
import concurrent.futures as cf
import vp

LEVEL = "model_checking"
SPECDIRS = ("c09",)

ALLOPS = ["+", "-", "*", "/", "%", "&", "|", "^", "=", "!=", "<", "<=", ">", ">=", "AND", "OR"]
# four partitions of the root operator, balanced by cost: one TLC process each, run side by side
PARTS = [["+", "<", "AND", "&"], ["-", "<=", "OR", "|"], ["*", ">", "=", "^"], ["/", "%", ">=", "!="]]
PARTS2 = [PARTS[0] + PARTS[3], PARTS[1] + PARTS[2]]


def tlaset(xs):
    return "{" + ", ".join('"%s"' % x for x in xs) + "}"


def cfg(mode, depth, sem, text, ops, invs, size="quick"):
    return ("SPECIFICATION Spec\nCONSTANTS\n  Mode = \"%s\"\n  MaxDepth = %d\n  ChainSize = \"%s\"\n  WithSem = %s\n  WithText = %s\n"
            "  ExcludeDevs = {\"AsLiteralUnsignedNil\", \"TimeStringEquality\", \"FloatModZeroNaN\", \"SubMinDurationWraps\"}\n"
            "  RootOps = %s\nINVARIANTS %s\nCHECK_DEADLOCK FALSE\n"
            % (mode, depth, size, "TRUE" if sem else "FALSE", '"%s"' % text, tlaset(ops), " ".join(invs)))


EXPR_INV = ["GenWellTyped", "ModelPreserves", "RepairedPreserves", "ModelIdempotent"]
TIME_INV = ["ModelTimeExact", "ModelTimeIdempotent"]
ZONE_INV = ["ModelZoneInForce", "ModelZoneExact", "ModelZoneIdempotent"]
# the zone slice, partitioned by root operator (forms: + is T+D and D+T, - is T-D and T-T, the others TcmpT)
ZPARTS2 = [["+", "-", "=", "!="], ["<", "<=", ">", ">="]]
ZPARTS4 = [["+", "-", "="], ["!=", "<"], ["<=", ">"], [">="]]


def pipeline(ctx, name, cfgtext, simulate, depth, workers):
    """generate (passes M + G) -> drive -> judge (pass V) for one part; ctx is a private copy"""
    cfgname = "Gen_c09_%s.cfg" % name
    open(ctx.path("spec", cfgname), "w").write(cfgtext)
    casefile = ctx.path("cases_%s.ndjson" % name)
    r = ctx.tlc("Gen_c09", cfgname, env={"CASE_FILE": casefile}, workers=workers, simulate=simulate, depth=depth,
                timeout=1500, expect_ok=False)
    modelcex = r.invariant_violated
    if not r.ok and not modelcex:
        raise vp.Broken("TLC failed on Gen_c09/%s (rc=%d):\n%s" % (cfgname, r.rc, "\n".join(r.out.splitlines()[-40:])))
    ngen = ctx.count_lines(casefile)
    if ngen == 0:
        raise vp.Broken("generator part %s produced no case" % name)
    obsfile = ctx.path("obs_%s.ndjson" % name)
    ctx.drive("c09", casefile, obsfile, timeout=1500)
    n = ctx.count_lines(obsfile)
    vs = ctx.judge("Judge_c09", "Judge_c09.cfg", obsfile, label=name, timeout=1500)
    ctx.note("%s: generated=%d distinct cases=%d verdicts=%d (TLC %d states, %.0fs)%s" % (
        name, ngen, n, len(vs), r.distinct, r.wall, " MODEL-COUNTEREXAMPLE" if modelcex else ""))
    sample = None
    if name.startswith(("d1", "sim", "chain")):
        recs = []
        with open(obsfile, encoding="utf-8") as f:
            for i, line in enumerate(f):
                if i in (7, 1500):
                    recs.append(vp.json.loads(line))
        sample = [dict(expr=x["obs"].get("str0"), via=x.get("via"), binds=x.get("binds"),
                       reduced=x["obs"].get("redstr"), v_reduced=x["obs"].get("v1"), v_direct=x["obs"].get("v0")) for x in recs]
    return dict(name=name, modelcex=modelcex, out=r.out, nviol=sum(1 for v in vs if not v.get("class", "").startswith(
        ("drift:", "Dev_", "machinery:"))), n=n, sample=sample, ctx=ctx)


def run(ctx):
    ctx.stage_specs(*SPECDIRS)
    ctx.rule = ("One case = one well-typed expression tree (AST built directly, and again through text + ParseExpr where "
                "expressible) x one assignment of boundary values x one split of the variables between Reduce and the "
                "evaluator; distinct = distinct case records (hash de-duplicated by the driver). Non-trivial = Reduce "
                "changed the expression (folded, substituted or simplified something), counted by the TLA+ judge. "
                "Zone slice: one case = one valuer composition x one zone x one time-arithmetic form x operands.")
    ctx.assumptions = [
        "TLC 1.8 and the CommunityModules Json/CSV/Bitwise modules",
        "spec/common/BigInt.tla and spec/c09/Num64.tla (exact 64-bit and IEEE-754 double arithmetic in TLA+, validated "
        "against Python on 13 000 random vectors and, in every run, against the real evaluator on every case that "
        "carries an EvalSem value)",
        "the Go AST builder / projection in harness/suite_c09.go (checked per record: projected input = the spec's tree)",
        "float domains are dyadic and far from overflow / subnormals; -0 is identified with +0",
        "time zones are fixed offsets (time.FixedZone / time.UTC: no tzdata, no transitions); duration scaling, regex "
        "operators and calls other than now() are outside the check",
    ]
    q = ctx.quick
    split = PARTS2 if q else PARTS           # fewer, larger TLC processes in the quick tier (a JVM start costs 2-3 s)
    parts = []
    for i, ops in enumerate(split):          # depth 1, exhaustive, specs evaluated on every case
        # text + ParseExpr route: quick only for variable-free expressions, thorough wherever expressible
        parts.append(("d1_%d" % i, cfg("expr", 1, True, "lits" if q else "all", ops, EXPR_INV), None, None, 4))
    parts.append(("time", cfg("time", 1, True, "none", ALLOPS, TIME_INV), None, None, 2))
    # zone slice (BFS, exhaustive): 11 valuer compositions x 5 fixed-offset zones x time forms with a zone-less date string
    for i, ops in enumerate(ZPARTS2 if q else ZPARTS4):
        parts.append(("zone_%d" % i, cfg("zone", 1, True, "none", ops, ZONE_INV, "quick" if q else "thorough"), None, None, 2))
    for i, ops in enumerate([ALLOPS] if q else PARTS):   # depth 2 and nested parentheses, sampled, with the specs
        parts.append(("simsem_%d" % i, cfg("expr", 2, True, "all", ops, EXPR_INV), "num=%d" % (100 if q else 1200), 18, 4))
    for i, ops in enumerate([ALLOPS] if q else PARTS):   # depth 2 and nested parentheses, sampled, relation only
        parts.append(("sim_%d" % i, cfg("expr", 2, False, "all", ops, ["GenWellTyped"]), "num=%d" % (500 if q else 5000), 18, 4))
    # depth 2, SYSTEMATIC (BFS, exhaustive): (p1 inner p2) outer p3 and p3 outer (p1 inner p2), every well-typed pair of
    # arithmetic / bitwise / comparison operators, one or two leaves left to the evaluator (int, unsigned, 0.1, 0.5),
    # the others boundary constants known at Reduce time; relation decided on the two real evaluations
    for i, ops in enumerate(split):
        parts.append(("chain_%d" % i, cfg("chain", 2, False, "none", ops, ["ChainWellTyped"], "quick" if q else "thorough"),
                      None, None, 4))
    parts.append(("deep", cfg("deep", 1, False, "none", ALLOPS, ["GenWellTyped"]), None, None, 1))
    parts.append(("nonfinite", cfg("nonfinite", 1, False, "none", ALLOPS, ["GenWellTyped"]), None, None, 1))
    ctx.exhaustive = False
    build = None
    results = []
    with cf.ThreadPoolExecutor(max_workers=5 if q else 4) as ex:
        build = ex.submit(ctx.build_driver)
        build.result()                        # the driver is needed by every pipeline
        futs = []
        for name, text, sim, depth, workers in parts:
            child = copy.copy(ctx)            # private counters, shared scratch / verdict list / notes
            child.states = child.transitions = child.judged = child.nontrivial = 0
            child.coverage_extra = {}
            futs.append(ex.submit(pipeline, child, name, text, sim, depth, workers))
        err = None
        for f in futs:
            try:
                results.append(f.result())
            except vp.Broken as e:
                err = err or e
        if err:
            raise err
    for res in results:
        c = res["ctx"]
        ctx.states += c.states
        ctx.transitions += c.transitions
        ctx.judged += c.judged
        ctx.nontrivial += c.nontrivial
        for k, v in c.coverage_extra.items():
            ctx.coverage_extra[k] = ctx.coverage_extra.get(k, 0) + v
        if res["sample"] and len(ctx.samples) < 5:
            ctx.samples.extend(res["sample"])
    mach = [v for v in ctx.verdicts if v.get("class", "").startswith("machinery:")]
    if mach:
        raise vp.Broken("the driver did not run the case the specification describes: %s (%d records)" % (
            vp.short(mach[0]), len(mach)))
    for res in results:
        if res["modelcex"] and res["nviol"] == 0:
            raise vp.Broken("pass M found a counterexample in the design spec (part %s) that the real code does not "
                            "reproduce: the model is wrong.\n%s" % (res["name"], "\n".join(res["out"].splitlines()[-60:])))
    hist = {}
    for v in ctx.verdicts:
        hist[v.get("class", "?")] = hist.get(v.get("class", "?"), 0) + 1
    ctx.note("verdict classes: " + (", ".join("%s=%d" % kv for kv in sorted(hist.items())) or "none"))
    ctx.coverage_extra["verdict_classes"] = hist
    ctx.coverage_extra["exhaustive_parts"] = [p[0] for p in parts if not p[2]]
    ctx.coverage_extra["sampled_parts"] = [p[0] for p in parts if p[2]]
    ctx.coverage_extra["decided_how"] = {
        "value preserved / idempotent": "real Reduce and real ValuerEval observed; relation decided by Judge_c09 (TLC)",
        "time arithmetic exact": "expected node computed by TimeSem (BigInt) in TLC, compared with the real folded node",
        "zone slice (zone_*)": "BFS-exhaustive over valuer compositions (flat, nested MultiValuer, NowValuer without zone before "
                               "the one with a zone, zone first, two zones, bare NowValuer, zone-only NowValuer, deeper nestings, "
                               "no zone) x zones UTC / -05:00 / +05:30 / +14:00 / -12:00 x T+D, T-D, D+T, T-T, comparisons and "
                               "equalities with at least one zone-less date string; the driver builds the composition with the "
                               "real MultiValuer / NowValuer / MapValuer; expected node computed by TimeSem in the zone in force "
                               "(first non-nil zone, depth-first), compared with the real folded node by Judge_c09; string = string "
                               "decided on the two real evaluations (Dev_TimeStringEquality only when the fold is the instant "
                               "comparison in that very zone)",
        "systematic depth-2 family (chain_*)": "BFS-exhaustive over both nestings x operator pairs x evaluation-time variable "
                                               "positions / kinds x boundary constants; relation decided on the two real evaluations",
        "real evaluator vs exact EvalSem": "compared on every d1_* and simsem_* record; a difference that keeps the property is drift",
        "ReduceModel vs EvalSem / TimeSem": "TLC invariants of Gen_c09 on every d1_*, simsem_*, time and zone_* case (zone_*: also "
                                            "multiValuer.Zone / Call / Value as transcribed vs the zone in force)",
    }
    return vp.case_finder


replay = vp.generic_replay("c09", "Judge_c09", "Judge_c09.cfg", SPECDIRS)
