"""C14 - clones are faithful and independent; derived operations leave the receiver alone."""
import re
import vp

LEVEL = "model_checking"
SPECDIRS = ("c14",)
PKG = ["GroupByInterval", "RewriteRegexConditions", "RewriteDistinct", "RewriteTimeFields", "SetTimeRange"]  # pre-steps of the heap model
INVS = "InvFaithfulStrict InvDisjoint InvOther InvReceiver"


def tla_set(xs):
    return "{" + ", ".join('"%s"' % x for x in xs) + "}"


def heap_cfg(maxpost, pre, mutlast, dev, sysiter, inv):
    return ("SPECIFICATION Spec\nCONSTANTS\n  MaxPost = %d\n  PreOps = %s\n  MutateLast = %s\n  DevIsTarget = %s\n"
            "  TargetSysIter = %s\nINVARIANTS %s\nCHECK_DEADLOCK FALSE\n"
            % (maxpost, tla_set(pre), str(mutlast).upper(), str(dev).upper(), str(sysiter).upper(), inv))


def heap(ctx, name, text, expect_violation=None, timeout=1500):
    cfg = "Heap_%s.cfg" % name
    open(ctx.path("spec", cfg), "w").write(text)
    r = ctx.tlc("Heap", cfg, workers=4, timeout=timeout, expect_ok=False, extra=["-noGenerateSpecTE"])
    if expect_violation is None:
        if r.invariant_violated or not r.ok:
            raise vp.Broken("pass M (%s): the design spec of Clone violates the property spec beyond the named deviation:\n%s"
                            % (name, "\n".join(r.out.splitlines()[-60:])))
        return r
    m = re.search(r"Invariant (\w+) is violated", r.out)
    d = re.findall(r'"CLONE-DIFF", "([^"]*)"', r.out)
    if not m or m.group(1) != expect_violation[0] or expect_violation[1] not in d:
        raise vp.Broken("pass M (%s): expected %s to be violated at %s, TLC says: %s / %s\n%s" % (
            name, expect_violation[0], expect_violation[1], m and m.group(1), d, "\n".join(r.out.splitlines()[-30:])))
    return r


def gen(ctx, part, consts, probe=None, simulate=None, depth=None, timeout=1800):
    cfg = "Gen_c14_%s.cfg" % part
    c = dict(Part='"%s"' % part, NExtra=0, Seed=ctx.seed, K=1, KCore=1, KRich=2, PreScope='"rich"', SimLen=3)
    c.update(consts)
    text = "SPECIFICATION Spec\nCONSTANTS\n" + "".join("  %s = %s\n" % kv for kv in c.items()) + "CHECK_DEADLOCK FALSE\n"
    open(ctx.path("spec", cfg), "w").write(text)
    cf = ctx.path("cases_%s.ndjson" % part)
    env = {"CASE_FILE": cf}
    if probe:
        env["PROBE_FILE"] = probe
    r = ctx.tlc("Gen_c14", cfg, env=env, workers=1 if part == "table" else 4, simulate=simulate, depth=depth, timeout=timeout)
    return cf, r


def run(ctx):
    q = ctx.quick
    ctx.stage_specs(*SPECDIRS)
    ctx.build_driver()
    ctx.rule = ("Inputs: the SELECT statements and expressions of spec/c14/Stmts_c14.tla (hand-written core covering every slot + "
                "seeded clause combinations), all accepted by the real parser. TLC enumerates histories <[pre], clone, steps>: "
                "every single reflection-enumerated path of every input mutated on each side (also after an in-place pre-step), "
                "every sequence of in-place operations of length <= K ending in an in-place or derived operation, and (thorough) "
                "simulated mixed histories. The driver executes them on real ASTs and records snapshots and shared mutable-node "
                "identities after every step. Distinct = distinct histories; non-trivial = some step after the clone visibly "
                "changed the side it was applied to, or a derived operation ran to completion (counted by the TLA+ judge).")
    ctx.assumptions = [
        "TLC 1.8 + CommunityModules", "the Go AST projection snapshot() (harness/project.go) shows every field, unexported included",
        "a snapshot is omitted from a step record only when its SHA-256 equals that of the last logged snapshot of that side",
        "A1: *regexp.Regexp and *time.Location are immutable values, not nodes (spec/c14/CloneProps.tla); the package never calls Regexp.Longest",
        "A2: GroupByInterval is an in-place (memoising) operation, not one of the property's read-only operations",
        "A3/A4: the read-only list as spelled out in CloneProps.tla; results of Reduce/RewriteFields may share nodes with the receiver",
        "mutable-node identities are Go addresses of pointer-to-struct nodes and slice element slots, collected by reflection"]

    # ------------------------------------------------------------------ pass M
    # The design spec is Clone as written since c7f96a4 (IsTarget copied: DevIsTarget = FALSE); the former deviation
    # Dev_CloneDropsIsTarget stays in CloneProps/Heap as a named shape so that a regression is reported under its name.
    if q:
        r = heap(ctx, "design", heap_cfg(2, ["GroupByInterval", "RewriteTimeFields"], False, False, False, INVS))
        ctx.note("pass M: %d heap states, histories <pre?, clone, any step, in-place|derived step> satisfy Faithful, Disjoint, "
                 "OtherUnchanged, ReceiverUnchanged" % r.distinct)
    else:
        r1 = heap(ctx, "design_pre", heap_cfg(2, PKG, False, False, False, INVS))
        r2 = heap(ctx, "design_mm", heap_cfg(2, [], True, False, False, INVS))
        r3 = heap(ctx, "design_3", heap_cfg(3, [], False, False, False, INVS))
        ctx.note("pass M: %d + %d + %d heap states (pre-steps x 2 steps; 2 arbitrary steps incl. mutate-mutate; 3 steps) satisfy "
                 "Faithful, Disjoint, OtherUnchanged, ReceiverUnchanged" % (r1.distinct, r2.distinct, r3.distinct))
        # the design before c7f96a4 is still recognised by TLC as violating Faithful exactly at IsTarget
        heap(ctx, "before_fix", heap_cfg(0, [], False, True, False, "InvReport InvFaithfulStrict"),
             expect_violation=("InvFaithfulStrict", "Target.Measurement.IsTarget"))
        # the INTO path of Clone does not copy SystemIterator; the parser never sets it (outside the quantifier)
        heap(ctx, "sysiter", heap_cfg(0, [], False, False, True, "InvReport InvFaithfulStrict"),
             expect_violation=("InvFaithfulStrict", "Target.Measurement.SystemIterator"))
        ctx.note("pass M: an INTO measurement carrying a SystemIterator (never produced by the parser) would lose it in Clone - "
                 "reported, not judged (outside the property's quantifier)")
    # model sanity: every Mutate step of the model is visible in the snapshot of the side it is applied to
    heap(ctx, "sanity", heap_cfg(1, [], False, False, False, INVS + " InvMutateVisible"))

    # ------------------------------------------------------------------ pass G: table, probe
    nextra = 6 if q else 130
    tf, _ = gen(ctx, "table", dict(NExtra=nextra))
    pf = ctx.path("probe.ndjson")
    ctx.drive("c14probe", tf, pf)
    probe = sorted(ctx.read_ndjson(pf), key=lambda r: int(r["sid"]))
    if [int(r["sid"]) for r in probe] != list(range(1, len(probe) + 1)):
        raise vp.Broken("probe: table entries lost")
    bad = [r for r in probe if not r["obs"].get("ok")]
    core_bad = [r for r in bad if r.get("core")]
    if core_bad:
        raise vp.Broken("the parser rejects a core input of Stmts_c14.tla: %s -> %s" % (core_bad[0]["text"], core_bad[0]["obs"].get("err")))
    for r in bad:  # TLC reads np / eff of every entry
        r["obs"].update(np={"none": 0}, eff={})
    ctx.write_ndjson(pf, probe)
    ok = [r for r in probe if r["obs"]["ok"]]
    nst = sum(1 for r in ok if r["kind"] == "stmt")
    nex = len(ok) - nst
    npaths = sum(int(r["obs"]["np"]["none"]) for r in ok)
    names = set()
    for r in ok:
        names.update(r["obs"].get("names", []))
    ctx.note("inputs: %d statements + %d expressions accepted (%d combined texts rejected by the parser), %d mutation paths "
             "(%d distinct field paths), %d mutable nodes" % (nst, nex, len(bad), npaths, len(names), sum(int(r["obs"]["nodes"]) for r in ok)))
    if nst < (55 if q else 180) or nex < 70:
        raise vp.Broken("too few accepted inputs: %d statements, %d expressions" % (nst, nex))
    ctx.coverage_extra.update(statements=nst, expressions=nex, mutation_paths=npaths, distinct_field_paths=len(names))

    # ------------------------------------------------------------------ pass G: histories; pass V
    parts = [("paths", dict(NExtra=nextra, PreScope='"rich"' if q else '"core"'), None, None),
             ("ops", dict(NExtra=nextra, K=1, KCore=1 if q else 2, KRich=2 if q else 3, PreScope='"rich"'), None, None)]
    if not q:
        parts.append(("sim", dict(NExtra=nextra, SimLen=4), "num=40", 6))
    for name, consts, sim, depth in parts:
        cf, r = gen(ctx, name, consts, probe=pf, simulate=sim, depth=depth)
        of = ctx.path("obs_%s.ndjson" % name)
        ctx.drive("c14", cf, of, timeout=3000)
        n = ctx.count_lines(of)
        ctx.judge("Judge_c14", "Judge_c14.cfg", of, label=name, chunk=8000, parallel=3)
        ctx.note("%s: %d histories generated (%d TLC states, %.0fs), %d distinct executed and judged" % (
            name, ctx.count_lines(cf), r.distinct, r.wall, n))
        ctx.coverage_extra["histories_" + name] = n
        noop = ctx.coverage_extra.get(name + ".mutate_noop", 0)
        if name == "paths" and noop and not [v for v in ctx.verdicts if not str(v.get("class", "")).startswith(("drift", "Dev_"))]:
            raise vp.Broken("%d mutate steps of the exhaustive path sweep did not change the side they were applied to "
                            "(vacuous paths: fix harness/suite_c14.go)" % noop)
        if ctx.coverage_extra.get(name + ".hangs", 0):
            raise vp.Broken("%s: a history did not return within the driver's deadline" % name)
        if name == "paths" and not ctx.samples:
            recs = ctx.read_ndjson(of)
            ctx.samples = [dict(text=x["text"], pre=x["pre"], history=[[s["a"], s["side"], s["op"]] for s in x["obs"]["steps"]])
                           for x in recs[3:len(recs):max(1, len(recs) // 4)] if "steps" in x["obs"]][:5]
        if sim:
            ctx.exhaustive = False

    tot = lambda k: sum(v for kk, v in ctx.coverage_extra.items() if kk.endswith("." + k))
    if not (tot("effective_steps") and tot("derived_steps")) or not ctx.nontrivial:
        raise vp.Broken("vacuous run: no effective step or no derived operation was judged")
    ctx.note("steps judged: %d (%d visibly changed their own side, %d derived operations completed, %d steps panicked, "
             "%d skipped)" % (tot("steps"), tot("effective_steps"), tot("derived_steps"), tot("step_panics"), tot("skipped_steps")))

    # ------------------------------------------------------------------ vacuity per derived operation
    # every read-only operation must have met inputs on which it had something to do (its result differed from its
    # input: folding, expansion, a time range ...): there an in-place implementation would show in the receiver
    for kind, ops in (("stmt", ["Reduce", "ReduceNil", "ReduceZone", "RewriteFields", "EvalCond", "EvalType", "String", "ColumnNames",
                                "RequiredPrivileges", "Names", "ConditionExpr"]),
                      ("expr", ["Reduce", "ReduceNil", "ReduceZone", "Eval", "EvalType", "String", "Names", "ConditionExpr"])):
        for op in ops:
            n = ctx.coverage_extra.get("ops.act_%s_%s" % (kind, op), 0)
            if n < 10:
                raise vp.Broken("vacuous: derived operation %s on %s inputs was active on %d inputs only" % (op, kind, n))
    if any(v.get("class") == "Dev_CloneDropsIsTarget" for v in ctx.verdicts):
        ctx.note("regression: Clone drops Target.Measurement.IsTarget again (the shape fixed in c7f96a4)")
    ctx.coverage_extra["exhaustive_parts"] = [p[0] for p in parts if not p[2]]
    ctx.coverage_extra["sampled_parts"] = [p[0] for p in parts if p[2]]
    return vp.case_finder


replay = vp.generic_replay("c14", "Judge_c14", "Judge_c14.cfg", SPECDIRS)
