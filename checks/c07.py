"""C07 - bound parameters are substituted as single tokens, never re-lexed."""
import vp

LEVEL = "model_checking"
SPECDIRS = ("c04", "c06", "c07")


def run(ctx):
    ctx.stage_specs(*SPECDIRS)
    ctx.build_driver()
    ctx.rule = ("Pass M: TLC checks on a model of Parser.scan over the 3-slot token ring that a placeholder is delivered as the "
                "same substituted token on every re-scan, for every placeholder position x value kind in every token sequence up "
                "to the stated length. Pass G/V: TLC enumerates every statement template of Params.tla x every binding of the "
                "table (BFS, exhaustive over the tables); each is parsed by the real parser with SetParams, and with marker "
                "literals / inlined literals without parameters; the TLA+ judge evaluates (E) error kinds, (S) template AST with "
                "the bound value substituted, (I) equality with the inlined text. Non-trivial = a bound value arrived in an AST.")
    ctx.assumptions = ["TLC 1.8 + CommunityModules", "the Go AST projection (harness/project.go) and its tagged re-encoding (c06Tag)",
                       "the harness token renderer and its escapers for the marker and inlined spellings",
                       "templates and value tables are finite lists in spec/c07/Params.tla"]
    # ---- pass M: substitution at read time over the token ring
    mparts = [("small", 4)] if ctx.quick else [("full", 5)]
    for base, n in mparts:
        c = "ParamRing_%s%d.cfg" % (base, n)
        open(ctx.path("spec", c), "w").write("SPECIFICATION Spec\nCONSTANTS\n  N = %d\n  Mode = \"read\"\n  Base <- %s\nINVARIANTS AllOK\nCHECK_DEADLOCK FALSE\n"
                                             % (n, "BaseSmall" if base == "small" else "BaseFull"))
        r = ctx.tlc("ParamRing", c, workers=4, timeout=1500, expect_ok=False)
        if r.invariant_violated or not r.ok:
            raise vp.Broken("pass M failed: the design spec of Parser.scan over the token ring violates re-scan determinism / "
                            "inline equivalence / ring discipline:\n" + "\n".join(r.out.splitlines()[-40:]))
        ctx.note("pass M (%s classes, length <= %d): %d token sequences with at most two placeholders (%.0fs)" % (base, n, r.distinct, r.wall))
    # negative control: a ring that caches the raw token on re-scan must be refuted by the same invariant
    c2 = "ParamRing_first.cfg"
    open(ctx.path("spec", c2), "w").write("SPECIFICATION Spec\nCONSTANTS\n  N = 3\n  Mode = \"first\"\n  Base <- BaseSmall\nINVARIANTS InlineSame\nCHECK_DEADLOCK FALSE\n")
    r2 = ctx.tlc("ParamRing", c2, workers=1, timeout=600, expect_ok=False, count=False)
    if not r2.invariant_violated:
        raise vp.Broken("pass M vacuity: the first-read-only substitution variant was not refuted by InlineSame")
    # ---- pass G / V
    c = "Gen_c07_%s.cfg" % ctx.tier
    open(ctx.path("spec", c), "w").write("SPECIFICATION Spec\nCONSTANTS Quick = %s\nCHECK_DEADLOCK FALSE\n" % ("TRUE" if ctx.quick else "FALSE"))
    cf = ctx.path("cases.ndjson")
    r = ctx.tlc("Gen_c07", c, env={"CASE_FILE": cf}, workers=4, timeout=1500)
    of = ctx.path("obs.ndjson")
    ctx.drive("c07", cf, of)
    ctx.note("templates x bindings: %d cases (TLC %d states, %.0fs)" % (ctx.count_lines(of), r.distinct, r.wall))
    ctx.judge("Judge_c07", "Judge_c07.cfg", of, chunk=4000)
    recs = ctx.read_ndjson(of)
    step = max(1, len(recs) // 4)
    ctx.samples = [dict(template=x["tpl"], text=x["obs"]["text"], bindings=[b["id"] for b in x["hb"]],
                        outcome=("error: " + x["obs"]["got"].get("err", "")) if "err" in x["obs"]["got"] else "ast")
                   for x in recs[7:len(recs):step]][:5]
    ctx.coverage_extra["templates"] = len({x["tpl"] for x in recs})
    ctx.coverage_extra["bindings"] = len({b["id"] for x in recs for b in x["hb"]})
    ctx.exhaustive = True
    return vp.case_finder


replay = vp.generic_replay("c07", "Judge_c07", "Judge_c07.cfg", SPECDIRS)
