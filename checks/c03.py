"""C03 - binary operators group by precedence and associate to the left."""
import os
import vp

LEVEL = "model_checking"
SPECDIRS = ("c03",)


def gen(ctx, cfgtext, name, simulate=None, depth=None, workers=4, timeout=1200):
    cfg = "Gen_c03_%s.cfg" % name
    open(ctx.path("spec", cfg), "w").write(cfgtext)
    cf = ctx.path("cases_%s.ndjson" % name)
    r = ctx.tlc("Gen_c03", cfg, env={"CASE_FILE": cf}, workers=workers, simulate=simulate, depth=depth,
                timeout=timeout, coverage=False)
    if r.invariant_violated:
        raise vp.Broken("design spec violates the reference grouping (pass M): " + r.out[-2000:])
    return cf, r


ALL = '{"*", "/", "%", "&", "+", "-", "|", "^", "=", "!=", "<>", "<", "<=", ">", ">=", "=~", "!~", "AND", "OR"}'
REP = '{"*", "/", "+", "=", "AND", "OR"}'
SUB = '{"*", "+", "=", "AND", "OR"}'


def cfg(k, maxspecial, ops, sub, nest="{1}", lits="{}", inv=True, callargs=False):
    return ("SPECIFICATION Spec\nCONSTANTS\n  K = %d\n  MaxSpecial = %d\n  OpsUsed = %s\n  SubOps = %s\n  Nest = %s\n  Lits = %s\n"
            "  CallArgs = %s\n  Long = %s\n%sCHECK_DEADLOCK FALSE\n" % (k, maxspecial, ops, sub, nest, lits, "TRUE" if callargs else "FALSE", "FALSE" if inv else "TRUE",
                                                        "INVARIANTS Agree Fold ReparseStable Local\n" if inv else ""))


def run(ctx):
    ctx.stage_specs(*SPECDIRS)
    ctx.build_driver()
    ctx.rule = ("TLC enumerates operator chains x0 o1 x1 .. ok xk (BFS, every chain once; simulation beyond); "
                "each is rendered, parsed by influxql.ParseExpr, printed and re-parsed. Distinct = distinct token "
                "sequences (hash de-duplicated by the driver). Non-trivial = chain has >=2 operators from different "
                "precedence levels or a signed / parenthesised operand (counted by the TLA+ judge).")
    ctx.assumptions = ["TLC 1.8 and the CommunityModules Json/CSV modules", "the Go AST projection (harness/project.go) "
                       "and token renderer (harness/render.go)", "exhaustive only inside the stated chain lengths"]
    parts = []
    if ctx.quick:
        parts.append(("plain3", cfg(3, 0, ALL, '{"*"}'), None, None))          # 7 239 chains, exhaustive
        parts.append(("forms2", cfg(2, 1, REP, SUB, "{1, 2}"), None, None))     # one special operand, k<=2, ( ) and (( ))
        parts.append(("forms3", cfg(3, 1, '{"*", "+", "AND"}', '{"*", "+", "OR"}', "{1, 3}"), None, None))
        # literal operands, negative ones too ( -1 * -2 , a - -2 , a / -1 * b ), next to one signed / parenthesised operand
        parts.append(("lits3", cfg(3, 0, '{"*", "/", "-", "+"}', '{"*"}', lits='{"-1", "-2", "2"}'), None, None))
        parts.append(("lits2", cfg(2, 1, '{"*", "/", "-", "="}', '{"*", "+"}', lits='{"-1", "-2"}'), None, None))
        # one operator of every precedence level, every chain of up to 6 of them (level patterns like AND OR = = with jumps of
        # more than one level)
        parts.append(("levels5", cfg(5, 0, '{"*", "+", "=", "AND", "OR"}', '{"*"}'), None, None))
        # long chains: every prefix of a few random chains of up to 140 operators (64 is a slab size, 3 the ring size)
        parts.append(("long", cfg(140, 0, ALL, '{"*"}', inv=False), "num=3", 141))
        # calls whose argument is a parenthesised group, as operands
        parts.append(("callargs", cfg(2, 1, REP, SUB, "{1, 2}", callargs=True), None, None))
        # uniform chains of 255..4097 operands (a / now()), a parenthesised or call operand last
        parts.append(("uniform", cfg(0, 0, ALL, '{"*"}', inv=False), None, None))
        parts.append(("sim", cfg(6, 0, ALL, '{"*"}'), "num=100", 7))
    else:
        parts.append(("plain4", cfg(4, 0, ALL, '{"*"}'), None, None))          # 137 560 chains, exhaustive
        parts.append(("forms3", cfg(3, 1, REP, SUB, "{1, 2, 3}"), None, None))    # one special operand, k<=3, nesting <= 3
        parts.append(("forms2x2", cfg(2, 2, REP, '{"*", "+"}', "{1, 2}"), None, None))  # two special operands, k<=2
        parts.append(("lits3", cfg(3, 0, '{"*", "/", "-", "+", "="}', '{"*"}', lits='{"-1", "-2", "2", "1", "0"}'), None, None))     # 162 k
        parts.append(("lits2", cfg(2, 1, '{"*", "/", "-", "+", "="}', '{"*", "+"}', lits='{"-1", "-2", "2", "1", "0"}', nest="{1, 2}"), None, None))
        parts.append(("sim", cfg(8, 0, ALL, '{"*"}', lits='{"-1", "2"}'), "num=200", 9))
        parts.append(("simforms", cfg(5, 3, ALL, SUB, "{1, 2}"), "num=12", 6))
        parts.append(("callargs", cfg(3, 1, REP, SUB, "{1, 2}", callargs=True), None, None))
        parts.append(("uniform", cfg(0, 0, ALL, '{"*"}', inv=False), None, None))
        parts.append(("levels7", cfg(7, 0, '{"*", "+", "=", "AND", "OR"}', '{"*"}'), None, None))
        parts.append(("long", cfg(240, 0, ALL, '{"*"}', inv=False), "num=6", 241))      # the judge's JSON reader stops at nesting depth 255
    for name, text, sim, depth in parts:
        cf, r = gen(ctx, text, name, simulate=sim, depth=depth, workers=1 if name == "long" else 4)   # long lines: one writer
        if sim:
            ctx.exhaustive = False
        of = ctx.path("obs_%s.ndjson" % name)
        ctx.drive("c03", cf, of)
        n = ctx.count_lines(of)
        ctx.note("%s: generated=%d distinct cases=%d (TLC %d states, %.0fs)" % (name, ctx.count_lines(cf), n, r.distinct, r.wall))
        ctx.judge("Judge_c03", "Judge_c03.cfg", of, label=name)
        if not ctx.samples:
            recs = ctx.read_ndjson(of)
            ctx.samples = [dict(text=x["obs"].get("text"), tree=x["obs"].get("str")) for x in recs[5:2000:400]]
    def corrupt(r):
        t = r["obs"].get("tree")
        if isinstance(t, dict) and t.get("k") == "BinaryExpr":
            t["Op"] = "+" if t["Op"] != "+" else "*"
            return True
        return False
    vp.binding_selftest(ctx, "Judge_c03", "Judge_c03.cfg", ctx.path("obs_%s.ndjson" % parts[0][0]), corrupt)
    ctx.exhaustive = False if not ctx.quick else ctx.exhaustive
    ctx.coverage_extra["exhaustive_parts"] = [p[0] for p in parts if not p[2]]
    ctx.coverage_extra["sampled_parts"] = [p[0] for p in parts if p[2]]
    return vp.case_finder


replay = vp.generic_replay("c03", "Judge_c03", "Judge_c03.cfg", SPECDIRS)
