"""C19 - required privileges cover everything a statement touches."""
import vp

LEVEL = "model_checking"
SPECDIRS = ("c19",)

ALLFORMS = '{"m", "rp.m", "re", "rp.re", "db.rp.m", "db..m", "db.rp.re", "db..re"}'
DB3 = '{"d1", "d2", "d3"}'
ALLWRAPS = '{"none", "explain", "analyze", "verbose", "analyze_verbose"}'

# Proposed entry for known_findings.json (see REPORT.md).  It takes effect only while the shared file does
# not list (property, class) itself; an entry there - also one with status "fixed" - wins.
PROPOSED_KNOWN = [{
    "property": "C19",
    "class": "Dev_EmptyPrivilegesCardinalityNoFrom",
    "status": "known",
    "match": "statement kind is ShowTagKeyCardinality, ShowTagValuesCardinality or ShowFieldKeyCardinality, or "
             "ShowSeriesCardinality / ShowMeasurementCardinality with EXACT; the statement has no FROM clause "
             "(Sources empty); RequiredPrivileges returned an empty list and no error "
             "(Privileges!Dev_EmptyPrivilegesCardinalityNoFrom)",
    "what": "cardinality statements that delegate to Sources.RequiredPrivileges() require nothing when they have no "
            "FROM clause (e.g. `SHOW TAG KEY CARDINALITY ON db`, `SHOW SERIES EXACT CARDINALITY`): empty privilege list",
}]


def _install_proposed():
    base = vp.load_known

    def load():
        ks = base()
        have = {(k.get("property"), k.get("class")) for k in ks}
        return ks + [k for k in PROPOSED_KNOWN if (k["property"], k["class"]) not in have]
    if getattr(vp.load_known, "_c19", False):
        return
    load._c19 = True
    vp.load_known = load


def cfg(part, leaves=0, depth=0, width=0, forms="{}", dbs=DB3, targets="TargetsNone", subtargets="TargetsNone",
        wraps='{"none"}', inv="MDesign MNested"):
    return ("SPECIFICATION Spec\nCONSTANTS\n  Part = \"%s\"\n  MaxLeaves = %d\n  MaxDepth = %d\n  MaxWidth = %d\n"
            "  LeafForms = %s\n  DBs = %s\n  Targets <- %s\n  SubTargets <- %s\n  Wraps = %s\n"
            "INVARIANTS %s\nCHECK_DEADLOCK FALSE\n" % (part, leaves, depth, width, forms, dbs, targets, subtargets, wraps, inv))


def gen(ctx, name, text, simulate=None, depth=None):
    c = "Gen_c19_%s.cfg" % name
    open(ctx.path("spec", c), "w").write(text)
    cf = ctx.path("cases_%s.ndjson" % name)
    r = ctx.tlc("Gen_c19", c, env={"CASE_FILE": cf, "DICT_FILE": ctx.source_dict()}, workers=1 if name == "chain" else 4, simulate=simulate, depth=depth, timeout=1500,
                expect_ok=False)
    if r.invariant_violated or not r.ok:
        raise vp.Broken("pass M failed (%s): the transcribed declarations violate the property beyond the named "
                        "deviation:\n%s" % (name, "\n".join(r.out.splitlines()[-40:])))
    return cf, r


def run(ctx):
    _install_proposed()
    ctx.stage_specs(*SPECDIRS)
    ctx.build_driver()
    ctx.rule = ("TLC enumerates (a) one or more instances of every statement kind reachable from parse_tree.go with "
                "the options that matter for privileges (ON / FROM / EXACT / target), (b) SELECT statements over source "
                "forests built item by item (measurement forms m, rp.m, db.rp.m, db..m and their regex variants, "
                "databases d1..d3 or none, subqueries) x INTO target forms x {plain, EXPLAIN variants}; the transcribed "
                "declarations of ast.go are model-checked against the property on each; each statement is parsed by "
                "ParseStatement and RequiredPrivileges is called on it and on every SELECT it contains. Distinct = "
                "distinct statement texts; non-trivial = SELECT/EXPLAIN with >=2 measurements, a subquery or a target, "
                "and every non-SELECT statement (counted by the TLA+ judge).")
    ctx.assumptions = ["TLC 1.8 + CommunityModules", "the token renderer (harness/render.go)",
                       "a measurement written without a database belongs to database \"\" (callers map it to the "
                       "default database, as ast.go documents)"]
    q = ctx.quick
    dictfile = ctx.source_dict()
    parts = [("kinds", cfg("kinds"), None, None), ("dict", cfg("dict"), None, None)]
    # pass M, stated once without the exclusion: the design must show the named deviation (and nothing else is
    # learnt from this run; cases are not emitted twice because the file name differs and is not driven)
    if q:
        parts += [
            # every leaf form x database, up to 2 measurements, one level of subqueries
            ("leaf2", cfg("select", 2, 1, 2, ALLFORMS), None, None),
            # shapes: up to 3 measurements, 2 levels, width 3, databases only through db..m / m
            ("shape3", cfg("select", 3, 2, 3, '{"m", "db..m"}'), None, None),
            # every target form x every wrapper over small forests
            ("tgtwrap", cfg("select", 2, 1, 2, '{"m", "db..m"}', dbs='{"d1", "d2"}', targets="TargetsAll",
                            wraps=ALLWRAPS), None, None),
            ("subtgt", cfg("select", 2, 2, 2, '{"db.rp.m", "re"}', dbs='{"d1"}', targets="TargetsFew",
                           subtargets="SubTargetsFew", wraps='{"none", "analyze"}'), None, None),
            ("sim", cfg("select", 6, 3, 3, ALLFORMS, targets="TargetsAll", subtargets="SubTargetsFew", wraps=ALLWRAPS),
             "num=40", 12),
        ]
    else:
        parts += [
            ("leaf3", cfg("select", 3, 1, 3, ALLFORMS), None, None),
            ("shape4", cfg("select", 4, 3, 2, '{"m", "db..m"}', dbs='{"d1", "d2"}'), None, None),
            ("tgtwrap", cfg("select", 2, 2, 2, '{"m", "db..m", "db.rp.re"}', dbs='{"d1", "d2"}', targets="TargetsAll",
                            wraps=ALLWRAPS), None, None),
            ("tgt3", cfg("select", 3, 2, 2, '{"m", "db..m", "db.rp.re"}', dbs='{"d1", "d2"}', targets="TargetsFew",
                         wraps='{"none", "analyze"}'), None, None),
            ("subtgt", cfg("select", 3, 2, 2, '{"db.rp.m", "re"}', dbs='{"d1", "d2"}', targets="TargetsFew",
                           subtargets="SubTargetsFew", wraps='{"none", "analyze"}'), None, None),
            ("sim", cfg("select", 8, 3, 3, ALLFORMS, targets="TargetsAll", subtargets="SubTargetsFew", wraps=ALLWRAPS),
             "num=250", 14),
        ]
    # one measurement behind 0..40 levels of subqueries (every depth once), plain and under EXPLAIN
    parts.append(("chain", cfg("select", 1, 40, 1, '{"db..m", "re"}', dbs='{"d3"}', wraps='{"none", "explain"}'), None, None))
    allcases = ctx.path("cases_all.ndjson")
    with open(allcases, "w", encoding="utf-8") as out:
        for name, text, sim, depth in parts:
            cf, r = gen(ctx, name, text, simulate=sim, depth=depth)
            if sim:
                ctx.exhaustive = False
            n = 0
            with open(cf, encoding="utf-8") as f:
                for line in f:
                    out.write(line)
                    n += 1
            ctx.note("%s: %d statements emitted (TLC %d states, %.0fs)" % (name, n, r.distinct, r.wall))
    # the handler paths of the real parse tree: every one must be the prefix of a generated statement
    tf = ctx.path("tree.ndjson")
    ctx.drive("c19tree", None, tf)
    paths = [x["obs"]["path"] for x in ctx.read_ndjson(tf)]
    of = ctx.path("obs_all.ndjson")
    ctx.drive("c19", allcases, of)
    recs = ctx.read_ndjson(of)
    texts = [x["obs"].get("text", "") for x in recs]
    orphan = [p for p in paths if not any(t == p or t.startswith(p + " ") for t in texts)]
    if not paths or orphan:
        raise vp.Broken("the parse tree has statement handlers the generator does not cover: %s" % (orphan or "(no paths)"))
    mdev = sum(1 for x in recs if x.get("mdev"))
    kinds = sorted({x["s"]["kind"] for x in recs})
    ctx.note("%d distinct statements, %d statement kinds, %d parse-tree handlers covered; the design yields the named "
             "deviation on %d of them" % (len(recs), len(kinds), len(paths), mdev))
    ctx.coverage_extra["statement_kinds"] = len(kinds)
    ctx.coverage_extra["parse_tree_handlers"] = len(paths)
    ctx.samples = [dict(text=x["obs"].get("text"), privs=x["obs"].get("privs")) for x in recs[3:3000:600]][:5]
    vs = ctx.judge("Judge_c19", "Judge_c19.cfg", of)
    bad = [v for v in vs if str(v.get("class", "")).startswith("machinery:")]
    real = [v for v in vs if not str(v.get("class", "")).startswith(("machinery:", "drift", "Dev_"))]
    if bad and not real:
        raise vp.Broken("generated statements were not accepted as generated (%d), e.g. %s" % (len(bad), vp.short(bad[0])))
    if bad:
        # the tree under check rejects some generated statements AND breaks the property on accepted ones: the violations
        # are about real behaviour and are reported; the rejected statements say nothing about C19
        ctx.note("%d generated statements were not accepted as generated, e.g. %s" % (len(bad), vp.short(bad[0])))
        ctx.verdicts = [v for v in ctx.verdicts if not str(v.get("class", "")).startswith("machinery:")]
    seen = sum(1 for v in vs if v.get("class") == "Dev_EmptyPrivilegesCardinalityNoFrom")
    ctx.note("named deviation Dev_EmptyPrivilegesCardinalityNoFrom: predicted by the design on %d statements, observed on "
             "the real code on %d" % (mdev, seen))
    ctx.coverage_extra["model_deviation_observed"] = seen
    ctx.coverage_extra["model_deviation_instances"] = mdev
    ctx.coverage_extra["exhaustive_parts"] = [p[0] for p in parts if not p[2]]
    ctx.coverage_extra["sampled_parts"] = [p[0] for p in parts if p[2]]
    return vp.case_finder


def replay(ctx, path):
    _install_proposed()
    return vp.generic_replay("c19", "Judge_c19", "Judge_c19.cfg", SPECDIRS)(ctx, path)
