"""C10 - splitting a WHERE clause into a time range and a residual preserves its meaning."""
import concurrent.futures
import copy
import json
import os
import shutil
import time
import vp

LEVEL = "model_checking"
SPECDIRS = ("c10",)

ALLOPS = '{"=", "<", "<=", ">", ">="}'
OPS3 = '{"=", "<=", ">"}'          # with both sides these are all five effective bounds
ALLFORMS = '{"int", "rfc", "dt", "date", "dur", "now", "intm", "intp", "rfcm", "rfcp", "revrfc", "revdt"}'


def cfg(ctx, edge=False, maxatoms=2, minemit=1, maxt=4, bases="{2, 3}", offn=1, ops=ALLOPS, sides='{"L", "R"}',
        spells='{"time", "qtime"}', forms=ALLFORMS, mode="rot", nt=1, shapes=1):
    return ("SPECIFICATION Spec\nCONSTANTS\n  EdgeMap = %s\n  MaxAtoms = %d\n  MinEmit = %d\n  MaxT = %d\n  Bases = %s\n"
            "  OffN = %d\n  Ops = %s\n  Sides = %s\n  Spells = %s\n  Forms = %s\n  DateBases = {2, 3}\n"
            "  FormMode = \"%s\"\n  NTLevel = %d\n  ShapeLevel = %d\n  Seed = %d\n"
            "INVARIANTS DesignAgrees\nCHECK_DEADLOCK FALSE\n"
            % ("TRUE" if edge else "FALSE", maxatoms, minemit, maxt, bases, offn, ops, sides, spells, forms,
               mode, nt, shapes, ctx.seed % 1000))


def pjudge(ctx, module, cfgname, obsfile, label, parts=4, heap="3g", timeout=900):
    """judge obsfile with `parts` TLC processes in parallel (each on a slice of the file); every slice
    is judged by ctx.judge on a private copy of ctx, the results are merged here"""
    n = ctx.count_lines(obsfile)
    if n == 0:
        raise vp.Broken("judge %s: empty observation file %s" % (module, obsfile))
    parts = max(1, min(parts, (n + 2499) // 2500))
    per = (n + parts - 1) // parts
    files = []
    with open(obsfile, encoding="utf-8", errors="replace") as f:
        for i in range(parts):
            p = "%s.slice%d" % (obsfile, i)
            cnt = 0
            with open(p, "w", encoding="utf-8") as g:
                for line in f:
                    g.write(line)
                    cnt += 1
                    if cnt == per:
                        break
            if cnt:
                files.append(p)

    def one(p):
        sub = _subctx(ctx)
        sub.judge(module, cfgname, p, label=label, heap=heap, timeout=timeout)
        return sub

    with concurrent.futures.ThreadPoolExecutor(max_workers=len(files)) as ex:
        subs = list(ex.map(one, files))
    allv = []
    for sub in subs:
        allv.extend(sub.verdicts)
        _merge(ctx, sub)
    return allv


def gen(ctx, module, name, text, simulate=None, depth=None, workers=4, timeout=1500):
    c = "%s_%s.cfg" % (module, name)
    open(ctx.path("spec", c), "w").write(text)
    cf = ctx.path("cases_%s.ndjson" % name)
    r = ctx.tlc(module, c, env={"CASE_FILE": cf}, workers=workers, simulate=simulate, depth=depth,
                timeout=timeout, expect_ok=False)
    if r.invariant_violated:
        raise vp.Broken("pass M: the design spec violates the property spec (%s/%s):\n%s" % (module, name, r.out[-3000:]))
    if not r.ok:
        raise vp.Broken("TLC failed on %s/%s (rc=%d):\n%s" % (module, c, r.rc, "\n".join(r.out.splitlines()[-40:])))
    return cf, r


def _subctx(ctx):
    sub = copy.copy(ctx)
    sub.verdicts, sub.tlc_runs, sub.coverage_extra, sub.notes = [], [], {}, []
    sub.judged = sub.nontrivial = sub.states = sub.transitions = 0
    return sub


def _merge(ctx, sub):
    ctx.verdicts.extend(sub.verdicts)
    ctx.tlc_runs.extend(sub.tlc_runs)
    ctx.judged += sub.judged
    ctx.nontrivial += sub.nontrivial
    ctx.states += sub.states
    ctx.transitions += sub.transitions
    for k, v in sub.coverage_extra.items():
        ctx.coverage_extra[k] = ctx.coverage_extra.get(k, 0) + v


def pipeline(ctx, genmodule, suite, judgemodule, judgecfg, parts, unit, sample, zones=(), tzs=()):
    """generate (+ model-check) every part, drive and judge.  quick: the generators run concurrently and
    the cases of all parts of one group (same judge configuration) are driven and judged together;
    thorough: part by part (bounded memory), the next generator overlapping the current drive + judge.  A part with sim == "M" is model-checked only."""
    def one_gen(p):
        sub = _subctx(ctx)
        monly = p["sim"] == "M"
        cf, r = gen(sub, genmodule, p["name"], p["cfg"], simulate=None if monly else p["sim"], depth=p["depth"])
        return p, sub, cf, r

    def handle(batch):
        # batch: list of (part, casefile, tlcresult) of one group
        names = "+".join(p["name"] for p, _, _ in batch)
        cf = batch[0][1]
        if len(batch) > 1:
            cf = ctx.path("cases_%s.ndjson" % names)
            with open(cf, "wb") as out:
                for _, f, _ in batch:
                    with open(f, "rb") as g:
                        shutil.copyfileobj(g, out)
                    os.remove(f)
        of = ctx.path("obs_%s.ndjson" % names)
        t0 = time.time()
        ctx.drive(suite, cf, of)
        t1 = time.time()
        n = ctx.count_lines(of)
        vs = pjudge(ctx, judgemodule, judgecfg(batch[0][0]["group"]), of, names, parts=4 if ctx.quick else 8)
        ctx.note("%s: distinct %s=%d (drive %.0fs, judge %.0fs; %d not ok)" % (names, unit, n, t1 - t0, time.time() - t1, len(vs)))
        if len(ctx.samples) < 5:
            recs = []
            with open(of, encoding="utf-8") as f:
                for i, line in enumerate(f):
                    if i % max(1, n // 4) == 1:
                        recs.append(json.loads(line))
            ctx.samples += [sample(x) for x in recs[:3]]
        # the same cases once more under a valuer with a fixed time zone: midnights and zone-less literals are then
        # wall clock in that zone (harness/suite_c10.go), the symbolic instants - all the judge sees - are unchanged
        for z in (zones if not batch[0][0]["group"] else ()):
            ofz = ctx.path("obs_%s_z%d.ndjson" % (names, z))
            t0 = time.time()
            cfz = ctx.path("cases_%s_z%d.ndjson" % (names, z))      # the zone travels in the case (a replay needs no environment)
            with open(cf, encoding="utf-8") as g, open(cfz, "w", encoding="utf-8") as out:
                for zi, line in enumerate(g):
                    c = json.loads(line)
                    if isinstance(c, str):
                        c = json.loads(c)
                    c["zmin"] = str(z)
                    out.write(json.dumps(c, ensure_ascii=False) + "\n")
                    # ... and once more under ANOTHER zone in the same process: what a zone-less string means depends on the
                    # zone of the call, not on the calls made before it
                    if zi % 3 == 0:
                        c2 = dict(c, zmin=str(330 if z != 330 else -300))
                        out.write(json.dumps(c2, ensure_ascii=False) + "\n")
            ctx.drive(suite, cfz, ofz)
            os.remove(cfz)
            vs = pjudge(ctx, judgemodule, judgecfg(batch[0][0]["group"]), ofz, names + "_z%d" % z, parts=4 if ctx.quick else 8)
            ctx.note("%s under zone %+d min: %d cases (%.0fs; %d not ok)" % (names, z, ctx.count_lines(ofz), time.time() - t0, len(vs)))
        # C18: the same histories once more on a statement that carries tz('<zone>'), with the bases 1..3 placed around
        # the hour that the zone's clocks repeat at the end of daylight saving time (harness/suite_c10.go)
        for tzi, tz in enumerate(tzs):
            stride = 1
            if isinstance(tz, tuple):
                tz, stride = tz[0], (tz[1] if ctx.quick else tz[2])
            oft = ctx.path("obs_%s_tz%d.ndjson" % (names, tzi))
            t0 = time.time()
            cft = ctx.path("cases_%s_tz%d.ndjson" % (names, tzi))
            with open(cf, encoding="utf-8") as g, open(cft, "w", encoding="utf-8") as out:
                for i, line in enumerate(g):
                    if i % stride != ctx.seed % stride:      # every stride-th history (which ones depends on the seed)
                        continue
                    c = json.loads(line)
                    if isinstance(c, str):
                        c = json.loads(c)
                    c["tz"] = tz
                    out.write(json.dumps(c, ensure_ascii=False) + "\n")
            ctx.drive(suite, cft, oft)
            vs = pjudge(ctx, judgemodule, judgecfg(batch[0][0]["group"]), oft, names + "_tz%d" % tzi, parts=4 if ctx.quick else 8)
            ctx.note("%s with tz('%s'), windows around the repeated hour / a UTC midnight: %d cases (%.0fs; %d not ok)" % (names, tz, ctx.count_lines(oft), time.time() - t0, len(vs)))
        if tzs:
            # C18: (a) the histories whose initial condition is `true` once more on a statement WITHOUT a WHERE clause,
            # (b) a share of all histories on a statement whose time column was renamed (`time AS ts` + RewriteTimeFields)
            cfv = ctx.path("cases_%s_var.ndjson" % names)
            nv = 0
            with open(cf, encoding="utf-8") as g, open(cfv, "w", encoding="utf-8") as out:
                for i, line in enumerate(g):
                    c = json.loads(line)
                    if isinstance(c, str):
                        c = json.loads(c)
                    cc = c.get("c") or {}
                    if cc.get("n") == "leaf" and (cc.get("x") or {}).get("a") == "bool" and (cc.get("x") or {}).get("b") is True:
                        out.write(json.dumps(dict(c, nowhere=True), ensure_ascii=False) + "\n")
                        nv += 1
                    if (not ctx.quick and i % 3 == 0) or i % 5 == (ctx.seed + 1) % 5:
                        out.write(json.dumps(dict(c, talias=True), ensure_ascii=False) + "\n")
                        nv += 1
            ofv = ctx.path("obs_%s_var.ndjson" % names)
            t0 = time.time()
            ctx.drive(suite, cfv, ofv)
            vs = pjudge(ctx, judgemodule, judgecfg(batch[0][0]["group"]), ofv, names + "_var", parts=4 if ctx.quick else 8)
            ctx.note("%s on statements without WHERE clause / with a renamed time column: %d cases (%.0fs; %d not ok)"
                     % (names, ctx.count_lines(ofv), time.time() - t0, len(vs)))
        os.remove(cf)

    def after_gen(p, sub, cf, r):
        _merge(ctx, sub)
        if p["sim"] == "M":
            ctx.note("%s: model-checked only, TLC %d states, %.0fs" % (p["name"], r.distinct, r.wall))
            if os.path.exists(cf):
                os.remove(cf)
            return False
        if p["sim"]:
            ctx.exhaustive = False
        ctx.note("%s: generated + model-checked, TLC %d states, %d case lines, %.0fs"
                 % (p["name"], r.distinct, ctx.count_lines(cf), r.wall))
        return True

    if ctx.quick:
        with concurrent.futures.ThreadPoolExecutor(max_workers=len(parts)) as ex:
            done = list(ex.map(one_gen, parts))
        groups = {}
        for p, sub, cf, r in done:
            if after_gen(p, sub, cf, r):
                groups.setdefault(p["group"], []).append((p, cf, r))
        for g in sorted(groups, key=str):
            handle(groups[g])
    else:
        # the generator of the next part runs while the current part is driven and judged
        with concurrent.futures.ThreadPoolExecutor(max_workers=1) as ex:
            fut = ex.submit(one_gen, parts[0])
            for i in range(len(parts)):
                p, sub, cf, r = fut.result()
                if i + 1 < len(parts):
                    fut = ex.submit(one_gen, parts[i + 1])
                if after_gen(p, sub, cf, r):
                    handle([(p, cf, r)])


def run(ctx):
    ctx.stage_specs(*SPECDIRS)
    ctx.build_driver()
    ctx.rule = ("TLC enumerates conditions (AND-trees with parentheses over time atoms op x side x instant x literal form, "
                "tag / field atoms, parenthesised OR groups of non-time atoms, boolean literals) inside the stated "
                "alphabets; each is model-checked (design split vs property at every grid point), rendered, parsed and "
                "split by the real ConditionExpr; the TLA+ judge evaluates Holds(cond, p) <=> p.t in [Min, Max] /\\ "
                "residual(p) at every grid point (instants at and 1 ns around every bound + both ends of the time line, "
                "x 8 valuations of t1, t2, v). Distinct = distinct case records. Non-trivial = at least one time bound "
                "next to at least one other atom (counted by the TLA+ judge).")
    ctx.assumptions = ["TLC 1.8 and the CommunityModules Json/CSV modules",
                       "harness/suite_c10.go maps symbolic instants to real timestamps and back (bases years apart)",
                       "the Go AST projection (only used for the drift report) and token renderer",
                       "residual truth is the real ValuerEval.EvalBool over a MapValuer",
                       "exhaustive only inside the stated alphabets"]
    parts = []
    if ctx.quick:
        # every single atom in every literal form and spelling, all four bases
        parts.append(("one", cfg(ctx, maxatoms=1, bases="{1, 2, 3, 4}", mode="all", nt=2), False, None, None))
        # every pair over 2 bases x offsets -1..1 (60 time atoms) + 8 non-time atoms, 3 shapes
        parts.append(("two", cfg(ctx, maxatoms=2, minemit=2), False, None, None))
        # every triple over a reduced alphabet
        parts.append(("three", cfg(ctx, maxatoms=3, minemit=3, offn=0, nt=0), False, None, None))
        # edge mapping: MinTime+1 and MaxTime as bases
        parts.append(("edge", cfg(ctx, edge=True, maxatoms=2, bases="{1, 4}", offn=1, nt=0, shapes=0), True, None, None))
        parts.append(("sim", cfg(ctx, maxatoms=4, minemit=3, bases="{1, 2, 3, 4}", nt=1, shapes=1), False, "num=3", 5))
    else:
        parts.append(("one", cfg(ctx, maxatoms=1, bases="{1, 2, 3, 4}", mode="all", nt=2, shapes=1), False, None, None))
        parts.append(("two", cfg(ctx, maxatoms=2, minemit=2, bases="{1, 2, 3, 4}", nt=2, shapes=2), False, None, None))
        parts.append(("three", cfg(ctx, maxatoms=3, minemit=3, offn=0, nt=1, shapes=2), False, None, None))
        parts.append(("four", cfg(ctx, maxatoms=4, minemit=4, offn=0, ops=OPS3, nt=0, shapes=1), False, None, None))
        parts.append(("edge1", cfg(ctx, edge=True, maxatoms=1, bases="{1, 4}", mode="all", nt=0), True, None, None))
        parts.append(("edge2", cfg(ctx, edge=True, maxatoms=2, minemit=2, bases="{1, 2, 4}", nt=1, shapes=1), True, None, None))
        parts.append(("sim", cfg(ctx, maxatoms=4, minemit=3, bases="{1, 2, 3, 4}", nt=2, shapes=2), False, "num=12", 5))
    pipeline(ctx, "Gen_c10", "c10", "Judge_c10", lambda edge: "Judge_c10_edge.cfg" if edge else "Judge_c10.cfg",
             [dict(name=p[0], cfg=p[1], group=p[2], sim=p[3], depth=p[4]) for p in parts], "cases",
             lambda x: dict(text=x["obs"].get("text"), lo=x["obs"].get("lo"), hi=x["obs"].get("hi"),
                            residual=x["obs"].get("resstr", "")), zones=(-480,) if ctx.quick else (-480, 330, 840))
    ctx.coverage_extra["exhaustive_parts"] = [p[0] for p in parts if not p[3]]
    ctx.coverage_extra["sampled_parts"] = [p[0] for p in parts if p[3]]
    return vp.case_finder


def replay(ctx, path):
    rec = json.load(open(path))
    edge = bool((rec.get("case") or {}).get("edge"))
    return vp.generic_replay("c10", "Judge_c10", "Judge_c10_edge.cfg" if edge else "Judge_c10.cfg", SPECDIRS)(ctx, path)
