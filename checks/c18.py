"""C18 - SetTimeRange replaces earlier time bounds, over any sequence of windows."""
import vp
from checks import c10 as _c10

LEVEL = "model_checking"
# SetRange.tla builds on the C10 modules (conditions, the splitter's design spec) and on
# PrecOps.tla of C03 (the print -> re-parse regrouping model)
SPECDIRS = ("c03", "c10", "c18")

ALLOPS = _c10.ALLOPS
OPS3 = _c10.OPS3
SPELLS = '{"time", "qtime", "Time", "TIME"}'


def cfg(ctx, maxatoms=2, minatoms=None, maxt=3, bases="{2, 3}", offn=0, ops=ALLOPS, sides='{"L", "R"}', spells=SPELLS,
        forms=_c10.ALLFORMS, mode="rot", nt=1, shapes=0, wins="{1, 2, 3, 5}", calls=3, topor=True, fixed=True,
        paren=True, invariants="StepHolds PlainHolds NoGrowthInv NTAgree PrintFaithfulInv"):   # fixed=True: the repaired strip (committed in /repo)
    return ("SPECIFICATION Spec\nCONSTANTS\n  EdgeMap = FALSE\n  FixedStrip = %s\n  ParenTopOr = %s\n  MaxAtoms = %d\n  MaxT = %d\n  Bases %s\n"
            "  OffN = %d\n  Ops = %s\n  Sides = %s\n  Spells = %s\n  Forms = %s\n  DateBases = {2, 3}\n"
            "  FormMode = \"%s\"\n  NTLevel = %d\n  ShapeLevel = %d\n  Seed = %d\n  WinIds = %s\n  MaxCalls = %d\n  TopOr = %s\n"
            "  MinAtoms = %d\n"
            "INVARIANTS %s\nCHECK_DEADLOCK FALSE\n"
            % ("TRUE" if fixed else "FALSE", "TRUE" if paren else "FALSE", maxatoms, maxt, ("<- " + bases) if bases.isidentifier() else ("= " + bases), offn, ops, sides, spells, forms, mode, nt, shapes,
               ctx.seed % 1000, wins, calls, "TRUE" if topor else "FALSE",
               (maxatoms if minatoms is None else minatoms), invariants))


def run(ctx):
    ctx.stage_specs(*SPECDIRS)
    ctx.build_driver()
    ctx.rule = ("TLC enumerates histories: an initial condition (AND-trees with parentheses over time atoms op x side x "
                "spelling of `time` x instant x literal form incl. now()-relative, tag / field atoms, OR groups of non-time "
                "atoms, boolean literals; also a bare `a OR b`) followed by every sequence of MaxCalls windows out of the "
                "window set; the design's SetTimeRange is model-checked against the property in every state; every "
                "complete history is run on a real SelectStatement and validated step by step by the TLA+ judge "
                "(selection through ConditionExpr + EvalBool at every grid point; node count; plain boolean reading of the "
                "condition held, against the property and against the printed condition parsed back). Distinct = distinct "
                "histories. Non-trivial = the initial condition has a time bound and the history has >= 2 calls.")
    ctx.assumptions = ["TLC 1.8 and the CommunityModules Json/CSV modules",
                       "harness/suite_c10.go maps symbolic instants to real timestamps and back",
                       "PrecOps!Reparse (validated by C03) as the model of print -> ParseExpr",
                       "residual truth is the real ValuerEval.EvalBool over a MapValuer",
                       "exhaustive only inside the stated alphabets and window sets"]
    # pass M, vacuity: the design that joins a bare top-level OR without parentheses (the code before the
    # repair adfd172) must violate the plain-reading property - TLC has to produce the counterexample
    name = "Gen_c18_oldjoin.cfg"
    open(ctx.path("spec", name), "w").write(cfg(ctx, maxatoms=1, mode="rot", nt=0, ops='{">="}', sides='{"L"}', calls=2,
                                                 paren=False, invariants="PlainHoldsStrict"))
    r = ctx.tlc("Gen_c18", name, env={"CASE_FILE": ctx.path("cases_oldjoin.ndjson")}, workers=1, expect_ok=False, timeout=600)
    if not r.invariant_violated:
        raise vp.Broken("pass M: the design with ParenTopOr = FALSE no longer violates PlainHoldsStrict:\n" + r.out[-2000:])
    ctx.note("oldjoin: design with the unparenthesised join violates the plain reading, as expected (TLC counterexample, %.0fs)" % r.wall)
    parts = []
    if ctx.quick:
        # every single atom: all spellings x sides x forms x ops, bases 2 and 3; all 64 sequences of 3 windows
        parts.append(("one", cfg(ctx, maxatoms=1, mode="all", nt=1, shapes=0, ops=OPS3), None, None))
        # every pair over a rotating alphabet, all sequences of 2 windows
        parts.append(("two", cfg(ctx, maxatoms=2, ops=OPS3, nt=0, calls=2, topor=False), None, None))
        # a parenthesised OR group of two tag atoms AND-ed with one time atom (every op / side / form, two spellings),
        # both orders, all 16 sequences of 2 windows: the group must keep its parentheses through strip, fold, print, re-parse
        parts.append(("orgrp", cfg(ctx, maxatoms=2, maxt=1, mode="all", nt=9, ops=OPS3, spells='{"time", "Time"}',
                                   forms='{"rfc", "dur", "now"}', calls=2, topor=False), None, None))
        # conditions ending in the pair of bounds SetTimeRange itself writes, after a bound of any other form
        parts.append(("tail", cfg(ctx, maxatoms=4, minatoms=3, maxt=3, mode="tail", nt=0, ops=OPS3, spells='{"time", "Time"}',
                                  forms='{"rfc", "now", "int"}', bases="{2, 3}", calls=2, wins="{1, 2, 5}", topor=False), None, None))
        # old bounds at and one nanosecond beyond the smallest and largest instant (a bound that cannot be evaluated is
        # stripped like any other)
        parts.append(("edge", cfg(ctx, maxatoms=1, mode="all", nt=1, ops=OPS3, bases="BasesFar", offn=1, forms='{"rfc", "rfcfar", "int"}',
                                  spells='{"time"}', calls=2, wins="{1, 2}", topor=False), None, None))
        # empty and reversed windows among ordinary ones, every sequence of 3
        parts.append(("empty", cfg(ctx, maxatoms=1, mode="rot", nt=1, ops=OPS3, wins="{1, 2, 6, 7}", calls=3), None, None))
        parts.append(("sim", cfg(ctx, maxatoms=3, minatoms=2, bases="{1, 2, 3, 4}", offn=1, nt=1, shapes=2, wins="{1, 2, 3, 4, 5, 6, 7}"), "num=150", 8))
    else:
        # every single atom (all operators, spellings, sides, forms), every sequence of 3 out of 4 windows
        parts.append(("one", cfg(ctx, maxatoms=1, mode="all", nt=2, shapes=0, wins="{1, 2, 3, 5}"), None, None))
        # the same with bound offsets -1..1 and window 4, sequences of 2 out of 5 windows
        parts.append(("one5", cfg(ctx, maxatoms=1, mode="all", nt=0, shapes=0, offn=1, wins="{1, 2, 3, 4, 5}", calls=2,
                                  topor=False), None, None))
        parts.append(("two", cfg(ctx, maxatoms=2, nt=1, shapes=0, calls=3, topor=False), None, None))
        parts.append(("two2", cfg(ctx, maxatoms=2, ops=OPS3, nt=0, shapes=2, calls=2, topor=False), None, None))
        parts.append(("three", cfg(ctx, maxatoms=3, ops=OPS3, nt=0, shapes=0, calls=2, wins="{1, 2, 5}", topor=False), None, None))
        # OR group x time atom as in quick, all operators, spellings and forms, 9 sequences of 2 windows
        parts.append(("orgrp", cfg(ctx, maxatoms=2, maxt=1, mode="all", nt=9, shapes=0, calls=2, wins="{1, 2, 5}",
                                   topor=False), None, None))
        # time atom, OR group, time atom in every order (rotating forms), sequences of 3 windows
        parts.append(("orgrp3", cfg(ctx, maxatoms=3, maxt=2, mode="rot", nt=9, ops=OPS3, sides='{"L"}', calls=3,
                                    wins="{1, 2, 5}", topor=False), None, None))
        parts.append(("tail", cfg(ctx, maxatoms=4, minatoms=3, maxt=3, mode="tail", nt=0, bases="{2, 3}", calls=2,
                                  wins="{1, 2, 3, 5}", topor=False), None, None))
        parts.append(("empty", cfg(ctx, maxatoms=2, mode="rot", nt=1, ops=OPS3, wins="{1, 2, 6, 7}", calls=3, topor=False), None, None))
        parts.append(("sim", cfg(ctx, maxatoms=3, minatoms=2, bases="{1, 2, 3, 4}", offn=1, nt=2, shapes=2, wins="{1, 2, 3, 4, 5, 6, 7}"), "num=600", 8))
    _c10.pipeline(ctx, "Gen_c18", "c18", "Judge_c18", lambda group: "Judge_c18.cfg",
                  [dict(name=p[0], cfg=p[1], group="all", sim=p[2], depth=p[3]) for p in parts], "histories",
                  lambda x: dict(text=x["obs"].get("text"), wins=x.get("wins"),
                                 conds=[st.get("cond") for st in x["obs"].get("steps", [])]),
                  tzs=(("America/New_York", 4, 3), ("America/Los_Angeles@utc0", 8, 6)))
    ctx.coverage_extra["exhaustive_parts"] = [p[0] for p in parts if not p[2]]
    ctx.coverage_extra["sampled_parts"] = [p[0] for p in parts if p[2] and p[2] != "M"]
    ctx.coverage_extra["model_only_parts"] = [p[0] for p in parts if p[2] == "M"]
    return vp.case_finder


replay = vp.generic_replay("c18", "Judge_c18", "Judge_c18.cfg", SPECDIRS)
