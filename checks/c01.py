"""C01 - the parser accepts the documented grammar and builds the AST it denotes."""
import vp
from checks import grammar_common as g

LEVEL = "model_checking"


def run(ctx):
    ctx.stage_specs(*g.SPECDIRS)
    ctx.build_driver()
    ctx.rule = ("TLC enumerates the denotation relation of spec/grammar/Grammar.tla: for each of 25 statement kinds every choice "
                "of one option per clause slot (ALTER RETENTION POLICY: every non-empty option subset in every order), the SELECT "
                "clause lattice, expression leaves and operators in field / WHERE / GROUP BY / argument positions, and every single "
                "spelling deviation (keyword case, identifier quoting, whitespace variant per gap) of a base statement per kind. "
                "Each text is parsed by ParseStatement and the projected AST compared with the generator's AST by the TLA+ judge. "
                "Distinct = distinct texts; non-trivial = the expected statement record has at least two slots beyond its kind.")
    ctx.assumptions = ["TLC 1.8 + CommunityModules", "the reflective AST projection (harness/project.go) and the token renderer "
                       "(harness/render.go, own escapers)", "exhaustive over the option sets written in Grammar.tla, not over all values"]
    parts = g.gen_statements(ctx, "selectq" if ctx.quick else "select")
    parts.append(("spell", g.gen_spellings(ctx, comments=False)))
    parts.append(("deep", g.gen_deep(ctx, 6000 if ctx.quick else 60000, 4 if ctx.quick else 5)))
    parts.append(("names", g.gen_names(ctx)))
    parts.append(("dict", g.gen_dict(ctx)))
    for name, cf in parts:
        of = ctx.path("obs_%s.ndjson" % name)
        ctx.drive("c01", cf, of)
        ctx.judge("Judge_c01", "Judge_c01.cfg", of, label=name, chunk=10000)
        if name == "kinds":
            recs = ctx.read_ndjson(of)
            ctx.samples = [x["obs"]["text"] for x in recs[3:len(recs):len(recs) // 5]]
    def corrupt(r):
        a = r["obs"].get("ast")
        if isinstance(a, dict):
            a["Limit"] = "77"
            return True
        return False
    vp.binding_selftest(ctx, "Judge_c01", "Judge_c01.cfg", ctx.path("obs_kinds.ndjson"), corrupt)
    return vp.case_finder


replay = vp.generic_replay("c01", "Judge_c01", "Judge_c01.cfg", g.SPECDIRS)
