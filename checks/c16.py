"""C16 - statement separation, whitespace and comments do not change meaning."""
import vp
from checks import grammar_common as g

LEVEL = "model_checking"


def run(ctx):
    ctx.stage_specs(*g.SPECDIRS)
    ctx.build_driver()
    ctx.rule = ("(1) TLC enumerates queries of 0..N statements from a pool x every separator spelling (semicolons with "
                "whitespace/comments, empty statements, leading/trailing separators, missing separator) and the judge compares "
                "ParseQuery's statements with the statements' own ASTs; (2) for a base statement of every kind, every loose "
                "inter-token gap is replaced by 6 whitespace variants and 5 comment variants and the AST must not change. "
                "Distinct = distinct texts; non-trivial = a gap variant, or a query with at least two statements.")
    ctx.assumptions = ["TLC 1.8 + CommunityModules", "the pool statements' ASTs are bound to single-statement parsing by C01",
                       "comments are inserted flanked by whitespace, as the property states"]
    parts = [("spell", g.gen_spellings(ctx, comments=True), "c01"), ("query", g.gen_queries(ctx, 2 if ctx.quick else 3), "c16q"),
             ("pairs", g.gen_pairs(ctx), "c16q")]
    for name, cf, suite in parts:
        of = ctx.path("obs_%s.ndjson" % name)
        ctx.drive(suite, cf, of)
        ctx.judge("Judge_c16", "Judge_c16.cfg", of, label=name, chunk=10000)
        recs = ctx.read_ndjson(of)
        ctx.samples += [x["obs"]["text"] for x in recs[11:len(recs):len(recs) // 3]][:3]
    def corrupt(r):
        st = r["obs"].get("stmts")
        if isinstance(st, list) and len(st) >= 2 and not r.get("bad"):
            st.pop()
            return True
        return False
    vp.binding_selftest(ctx, "Judge_c16", "Judge_c16.cfg", ctx.path("obs_query.ndjson"), corrupt, n=2000)
    return vp.case_finder


def replay(ctx, path):
    import json
    rec = json.load(open(path))
    suite = "c16q" if "wants" in (rec.get("case") or {}) else "c01"
    return vp.generic_replay(suite, "Judge_c16", "Judge_c16.cfg", g.SPECDIRS)(ctx, path)
