"""C15 - passwords never appear in printed or sanitized text."""
import collections
import os
import vp

LEVEL = "model_checking"
SPECDIRS = ("c15",)
INV = "GShape GMarkers GValues MExplained MEffective MNoClause"
HARD = ["Dev_CommentBetweenKeywords", "Dev_EqInUserName", "Dev_NoSpaceBeforeLiteral", "Dev_CommentBeforeLiteral",
        "Dev_PwWhitespace", "Dev_PwDoubleQuote", "Dev_TightAfterLiteral"]

# C15_DESIGN=fix compares with the design of the candidate repair instead (spec/c15/Sanitize.tla, Model);
# only meant for runs with VERIF_REPO pointing at a tree that has the repair applied
DESIGN = "current" if os.environ.get("C15_DESIGN") == "current" else "fix"   # the repair of sanitize.go is committed in /repo
if DESIGN == "fix":
    HARD = ["Dev_CommentBetweenKeywords", "Dev_CommentBeforeLiteral"]

JUDGE_CFG = "Judge_c15_fix.cfg" if DESIGN == "fix" else "Judge_c15.cfg"

DEFAULT = dict(Contexts="CtxSingle", Cases="CasesU", OGaps="GapsSp", KGaps="GapsSp", LGaps="GapsSp", EGaps="GapsSp",
               AGaps="GapsSp", S1Gaps="GapsNone", S2Gaps="GapsSp", Users="UsersU", Pieces="PiecesM", PwMax=1, PwQuote="QuoteSingle")


def cfg(inv=INV, **kw):
    d = dict(DEFAULT)
    d.update(kw)
    lines = ["SPECIFICATION Spec", "CONSTANTS"]
    for k, v in d.items():
        lines.append("  %s %s %s" % (k, "=" if k == "PwMax" else "<-", v))
    lines.append('  Design = "%s"' % DESIGN)
    lines += ["INVARIANTS " + inv, "CHECK_DEADLOCK FALSE", ""]
    return "\n".join(lines)


# long user names, long runs of blanks in one kind of gap at a time (lengths around 64 and 128)
def long_slices(quick):
    few = "GapsLongFew"
    return [("long_users", dict(Users="UsersLong", Cases="CasesU" if quick else "CasesAll", EGaps="GapsTight"), None, None),
            ("long_og", dict(OGaps=few, Contexts="CtxS" if quick else "CtxSingle"), None, None),
            ("long_kg", dict(KGaps="GapsLong", LGaps=few if quick else "GapsLong", Contexts="CtxCS" if quick else "CtxSingle"), None, None),
            ("long_eg", dict(Contexts="CtxS", EGaps="GapsLong", Users="UsersU" if quick else "UsersSome"), None, None),
            ("long_ag", dict(Contexts="CtxA", AGaps="GapsLong"), None, None),
            ("long_multi", dict(Contexts="CtxMulti", S2Gaps=few), None, None)]


def slices(quick):
    """(name, constants, simulate, depth): BFS slices vary a few dimensions exhaustively while the
    others stay at their defaults; the simulated slice mixes all dimensions at random."""
    full = dict(Contexts="CtxPw", Cases="CasesAll", OGaps="GapsAll", KGaps="GapsAll", LGaps="GapsAll0", EGaps="GapsAll0",
                AGaps="GapsAll0", S1Gaps="GapsTight", S2Gaps="GapsSemi2", Users="UsersAll", Pieces="PiecesAll", PwMax=4)
    if quick:
        return [
            # every gap between WITH/PASSWORD/FOR/user/=/literal, incl. none and comments
            ("gaps", dict(KGaps="GapsAll", LGaps="GapsAll0", EGaps="GapsAll0", AGaps="GapsTight"), None, None),
            # every password of <= 3 pieces over the 10-piece alphabet
            ("pw", dict(Contexts="CtxCS", Pieces="PiecesAll", PwMax=3), None, None),
            # user names x keyword case x tight/loose '='
            ("users", dict(Cases="CasesAll", Users="UsersAll", EGaps="GapsTight", LGaps="GapsTight", AGaps="GapsTight"), None, None),
            # user names with '=' inside x every gap between the name, '=' and the literal
            ("equsers", dict(Contexts="CtxCS", Users="UsersEq", EGaps="GapsAll0", LGaps="GapsTight"), None, None),
            # the ordinary gaps
            ("ogaps", dict(Contexts="CtxCS", OGaps="GapsAll"), None, None),
            # several statements in one text, tight and loose ';'
            ("multi", dict(Contexts="CtxMulti", S1Gaps="GapsTight", S2Gaps="GapsTight"), None, None),
            # texts without password clause
            ("nopw", dict(Contexts="CtxNoPw", S1Gaps="GapsTight", S2Gaps="GapsSemi2"), None, None),
            ("mix", full, "num=150", 140),
        ] + long_slices(True)

    return [
        ("gaps", dict(Cases="CasesAll", KGaps="GapsAll", LGaps="GapsAll0", EGaps="GapsAll0", AGaps="GapsTight"), None, None),
        ("pw", dict(Pieces="PiecesAll", PwMax=3), None, None),
        ("pw4", dict(Contexts="CtxCS", Pieces="PiecesCore", PwMax=4), None, None),
        ("users", dict(Cases="CasesAll", Users="UsersAll", EGaps="GapsAll0", LGaps="GapsTight", AGaps="GapsTight"), None, None),
        ("equsers", dict(Contexts="CtxCS", Users="UsersEq", OGaps="GapsSome", EGaps="GapsAll0", LGaps="GapsSome0"), None, None),
        ("ogaps", dict(Contexts="CtxCS", OGaps="GapsAll"), None, None),
        ("ogapsA", dict(Contexts="CtxA", OGaps="GapsSome", AGaps="GapsSome0"), None, None),
        ("multi", dict(Contexts="CtxMulti", S1Gaps="GapsTight", S2Gaps="GapsSemi2", LGaps="GapsTight"), None, None),
        ("nopw", dict(Contexts="CtxNoPw", S1Gaps="GapsTight", S2Gaps="GapsSemi2"), None, None),
        ("mix", full, "num=1100", 140),
    ] + long_slices(False) + [("long_all", dict(Contexts="CtxPw", Users="UsersLong", OGaps="GapsLongFew", Cases="CasesAll", S1Gaps="GapsTight"), "num=40", 140)]



def run(ctx):
    ctx.stage_specs(*SPECDIRS)
    ctx.build_driver()
    ctx.rule = ("TLC builds CREATE USER / SET PASSWORD texts segment by segment (keyword case x gap texts incl. none and "
                "comments x user names x passwords of marker letters interleaved with space, \\', \", \\\\, =, \\n, ;, --, /* x "
                "WITH ALL PRIVILEGES x alone / repeated / among other statements) and texts without password clause: BFS over "
                "slices that vary a few dimensions exhaustively, simulation over the full product. Every text is sanitized, "
                "parsed and printed by the real package. Distinct = distinct texts (hash de-duplicated by the driver). "
                "Non-trivial = accepted by the real parser with the intended passwords and not the canonical single-space, "
                "letters-only layout (or, without password clause, mentioning the word PASSWORD); counted by the TLA+ judge.")
    ctx.assumptions = ["TLC 1.8 + CommunityModules", "the replacement text is read off Sanitize's output on the two inputs of "
                       "sanitize_test.go (the property does not prescribe it)", "marker letters X Y Z Q stand for 'any fragment "
                       "of the password'; fragments made only of punctuation/whitespace are judged by exact comparison with the "
                       "expected text", "Go regexp leftmost-first semantics as transcribed in spec/c15/Sanitize.tla (pass M claims "
                       "are about that transcription; pass V compares it with the real output on every record)"]
    allcases = ctx.path("cases_all.ndjson")
    hist = collections.Counter()
    bfs, sim = [], []
    with open(allcases, "w", encoding="utf-8") as out:
        for name, consts, simulate, depth in slices(ctx.quick):
            c = "Gen_c15_%s.cfg" % name
            open(ctx.path("spec", c), "w").write(cfg(**consts))
            cf = ctx.path("cases_%s.ndjson" % name)
            r = ctx.tlc("Gen_c15", c, env={"CASE_FILE": cf}, workers=4, simulate=simulate, depth=depth,
                        timeout=1500, expect_ok=False)
            if r.invariant_violated or not r.ok:
                raise vp.Broken("pass M failed on slice %s: a generator invariant or a claim about the design of Sanitize "
                                "(MExplained / MEffective / MNoClause) does not hold:\n%s"
                                % (name, "\n".join(r.out.splitlines()[-40:])))
            recs = ctx.read_ndjson(cf)
            if not recs:
                raise vp.Broken("slice %s generated no case" % name)
            for x in recs:
                hist[(x["dev"], bool(x["mok"]))] += 1
            with open(cf, encoding="utf-8") as f:
                for line in f:
                    out.write(line)
            (sim if simulate else bfs).append(name)
            ctx.note("%s: %d texts generated and model-checked (%d states, %.0fs)%s" % (
                name, len(recs), r.distinct, r.wall, " [simulation]" if simulate else ""))
    # pass M, vacuity: every hard layout feature occurs and makes the design fail; clean texts exist
    for d in HARD:
        if hist[(d, False)] == 0:
            raise vp.Broken("vacuity: no generated text on which the design fails with feature %s" % d)
    if hist[("none", True)] < 100:
        raise vp.Broken("vacuity: only %d generated texts without any deviation feature" % hist[("none", True)])
    ctx.coverage_extra["design_prediction_histogram"] = {"%s/%s" % (k[0], "design-ok" if k[1] else "design-fails"): v
                                                         for k, v in sorted(hist.items())}
    of = ctx.path("obs_all.ndjson")
    ctx.drive("c15", allcases, of)
    n = ctx.count_lines(of)
    ctx.note("driver: %d distinct texts sanitized, parsed and printed by the real package" % n)
    ctx.judge("Judge_c15", JUDGE_CFG, of, chunk=2500, parallel=4)
    ce = ctx.coverage_extra
    if ce.get("clean", 0) < 100:
        raise vp.Broken("vacuity: only %d valid records without deviation feature were judged" % ce.get("clean", 0))
    if ce.get("skipped", 0) * 20 > n:
        raise vp.Broken("generator drift: %d of %d texts were not accepted by the real parser with the intended passwords"
                        % (ce.get("skipped", 0), n))
    # speculative syntax: spellings the present parser rejects (other white-space characters in every gap, the doubled
    # quote inside quoted text).  Judged by the same judge, and only where the parser under check accepts them.
    spec = [("spec_og", dict(Contexts="CtxCS", OGaps="GapsSpecFew")),
            ("spec_kg", dict(Contexts="CtxSingle", KGaps="GapsSpecSp", Cases="CasesAll")),
            ("spec_lg", dict(Contexts="CtxSingle", LGaps="GapsSpecSp0", Cases="CasesAll")),
            ("spec_eg", dict(Contexts="CtxS", EGaps="GapsSpecSp0", LGaps="GapsSpecSp0")),
            ("spec_ag", dict(Contexts="CtxA", AGaps="GapsSpecSp0")),
            ("spec_multi", dict(Contexts="CtxMulti", LGaps="GapsSpecFew")),
            ("spec_quote", dict(Contexts="CtxSingle", Users="UsersSpec", Pieces="PiecesSpec", PwMax=3)),
            # the password written in double quotes (the "common invalid statement" of sanitize_test.go), every gap before it
            ("spec_dq", dict(Contexts="CtxSingle", PwQuote="QuoteDouble", Pieces="PiecesDq", PwMax=3, LGaps="GapsTight", EGaps="GapsTight",
                             Users="UsersSome")),
            ("spec_dq_multi", dict(Contexts="CtxMulti", PwQuote="QuoteDouble", S1Gaps="GapsTight"))]
    speccases = ctx.path("cases_spec.ndjson")
    with open(speccases, "w", encoding="utf-8") as out:
        for name, consts in spec:
            c = "Gen_c15_%s.cfg" % name
            open(ctx.path("spec", c), "w").write(cfg(inv="GShape GValues", **consts))
            cf = ctx.path("cases_%s.ndjson" % name)
            ctx.tlc("Gen_c15", c, env={"CASE_FILE": cf}, workers=4, timeout=1500)
            with open(cf, encoding="utf-8") as f:
                for line in f:
                    out.write(line)
    ofs = ctx.path("obs_spec.ndjson")
    ctx.drive("c15", speccases, ofs)
    before = dict(ce)
    ctx.judge("Judge_c15", JUDGE_CFG, ofs, chunk=2500, parallel=4, label="spec")
    ctx.note("speculative syntax: %d texts (white-space-like characters in every gap, doubled quotes); %d accepted by the parser "
             "under check and judged" % (ctx.count_lines(ofs), ce.get("valid", 0) - before.get("valid", 0)))
    ce["speculative_texts"] = ctx.count_lines(ofs)
    recs = ctx.read_ndjson(of)
    step = max(1, len(recs) // 5)
    ctx.samples = [dict(text=x["obs"]["text"], sanitized=x["obs"].get("san"), printed=x["obs"].get("strs", []),
                        design_class=x["dev"]) for x in recs[3::step]][:5]
    ctx.exhaustive = False
    ce["exhaustive_parts"] = bfs
    ce["sampled_parts"] = sim
    return vp.case_finder


replay = vp.generic_replay("c15", "Judge_c15", JUDGE_CFG, SPECDIRS)
