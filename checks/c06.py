"""C06 - quoting helpers invert the lexer and cannot be broken out of."""
import json
import vp

LEVEL = "model_checking"
SPECDIRS = ("c05", "c06")
INV = "MQuoteString MQuoteIdent MEmptyMiddle MThreePart MNeedsQuotes"


def gen_cfg(n, sigma, kw):
    return ("SPECIFICATION Spec\nCONSTANTS\n  N = %d\n  Sigma <- %s\n  Keywords = %s\nINVARIANTS %s\nCHECK_DEADLOCK FALSE\n"
            % (n, sigma, "TRUE" if kw else "FALSE", INV))


def gent_cfg(n, sigma):
    return "SPECIFICATION Spec\nCONSTANTS\n  NT = %d\n  SigmaT <- %s\nCHECK_DEADLOCK FALSE\n" % (n, sigma)


def run(ctx):
    ctx.stage_specs(*SPECDIRS)
    ctx.build_driver()
    ctx.rule = ("Family 1: TLC enumerates every string over the stated alphabets up to length N (BFS, exhaustive), model-checks "
                "the transcribed helpers + transcribed scanner against the property operators on each, and the real helpers and "
                "scanner are run on the same strings; non-trivial = the string needs an escape or quotes. Family 2: every string "
                "over the second alphabet (with CR, NUL, invalid UTF-8) up to length NT and a list of break-out attempts, written "
                "with the real helpers into each of the 36 statement templates and parsed by the real parser; non-trivial = a "
                "non-empty value arrived in an AST. Seeded random longer strings are added to both. All counted by the TLA+ judges.")
    ctx.assumptions = ["TLC 1.8 + CommunityModules", "the Go AST projection (harness/project.go) and its tagged re-encoding "
                       "(suite_c06.go: c06Tag)", "the harness token renderer for the text around the hole",
                       "strings beyond the stated lengths are seeded samples"]
    # ---- family 1: pass M on the design + pass G/V on the real helpers and scanner
    parts = [("SigmaQ", 4)] if ctx.quick else [("SigmaQ", 4), ("SigmaQ5", 5), ("SigmaK", 4)]
    for sigma, n in parts:
        name = "%s_%d" % (sigma, n)
        c = "Gen_c06_%s.cfg" % name
        open(ctx.path("spec", c), "w").write(gen_cfg(n, sigma, sigma == "SigmaQ"))
        cf = ctx.path("cases_%s.ndjson" % name)
        r = ctx.tlc("Gen_c06", c, env={"CASE_FILE": cf}, workers=4, timeout=1500, expect_ok=False)
        if r.invariant_violated or not r.ok:
            raise vp.Broken("pass M failed: the design spec of the quoting helpers + scanner violates the property spec:\n"
                            + "\n".join(r.out.splitlines()[-40:]))
        of = ctx.path("obs_%s.ndjson" % name)
        ctx.drive("c06", cf, of)
        ctx.note("%s: %d strings model-checked (%.0fs), %d quoted and scanned by the real code" % (
            name, r.distinct - 1, r.wall, ctx.count_lines(of)))
        ctx.judge("Judge_c06", "Judge_c06.cfg", of, label=name, chunk=6000)
        if not ctx.samples:
            recs = ctx.read_ndjson(of)
            ctx.samples = [dict(s="".join(x["inp"]), QuoteString="".join(x["obs"]["qs"]), QuoteIdent="".join(x["obs"]["qi"]),
                                needs=x["obs"]["need"], bare=x["obs"]["bare_t"]) for x in recs[50:20000:5000]]
    nr = 3000 if ctx.quick else 30000
    of = ctx.path("obs_rand1.ndjson")
    ctx.drive("c06", None, of, args=["fam1", nr])
    ctx.judge("Judge_c06", "Judge_c06.cfg", of, label="rand1", chunk=6000)
    ctx.note("family 1 random strings: %d" % ctx.count_lines(of))
    # ---- rune sweep: every Unicode scalar value inside short frames (Gen_c06s)
    shapes = '{"mid", "solo", "first", "last", "esc", "q"}'
    c = "Gen_c06s.cfg"
    open(ctx.path("spec", c), "w").write("SPECIFICATION Spec\nCONSTANTS\n  BlockSize = 2048\n  Shapes = %s\nCHECK_DEADLOCK FALSE\n" % shapes)
    cf = ctx.path("cases_sweep.ndjson")
    r = ctx.tlc("Gen_c06s", c, env={"CASE_FILE": cf}, workers=1, timeout=600)
    of = ctx.path("obs_sweep.ndjson")
    ctx.drive("c06", cf, of)
    recs = ctx.read_ndjson(of)
    nrunes = sum(x["obs"].get("runlen", 0) + sum(y.get("runlen", 0) for y in x["obs"].get("rest", [])) for x in recs)
    nruns = sum((1 if "runlen" in x["obs"] else 0) + len(x["obs"].get("rest", [])) for x in recs)
    ctx.note("rune sweep: %d blocks, shapes %s: %d strings quoted and scanned by the real code, %d runs of alike behaviour judged"
             % (len(recs), shapes, nrunes, nruns))
    if nrunes < 1112064 * 6:
        raise vp.Broken("rune sweep covered only %d strings" % nrunes)
    ctx.coverage_extra["rune_sweep_strings"] = nrunes
    ctx.judge("Judge_c06", "Judge_c06.cfg", of, label="sweep", chunk=6000)
    # ---- length sweep: one string per length (Gen_c06l)
    c = "Gen_c06l.cfg"
    open(ctx.path("spec", c), "w").write("SPECIFICATION Spec\nCONSTANTS\n  Dense = %d\n  Max = %d\nCHECK_DEADLOCK FALSE\n" % ((140, 1024) if ctx.quick else (400, 4096)))
    cf = ctx.path("cases_len.ndjson")
    ctx.tlc("Gen_c06l", c, env={"CASE_FILE": cf}, workers=1, timeout=600)
    of = ctx.path("obs_len.ndjson")
    ctx.drive("c06", cf, of)
    ctx.note("length sweep: %d strings (every length up to %d, the neighbours of the powers of two beyond, three patterns)"
             % (ctx.count_lines(of), 140 if ctx.quick else 600))
    ctx.judge("Judge_c06", "Judge_c06.cfg", of, label="len", chunk=300)
    # ---- family 2: every string whatsoever x every template position
    sigma, n = ("SigmaW", 2) if ctx.quick else ("SigmaW", 3)
    c = "Gen_c06t_%s_%d.cfg" % (sigma, n)
    open(ctx.path("spec", c), "w").write(gent_cfg(n, sigma))
    cf = ctx.path("cases_t.ndjson")
    r = ctx.tlc("Gen_c06t", c, env={"CASE_FILE": cf}, workers=4, timeout=1500)
    of = ctx.path("obs_t.ndjson")
    ctx.drive("c06", cf, of)
    ctx.note("family 2: %d template cases (%s, length <= %d, + break-out list)" % (ctx.count_lines(of), sigma, n))
    ctx.judge("Judge_c06t", "Judge_c06t.cfg", of, label="tpl", chunk=8000)
    recs = ctx.read_ndjson(of)
    ctx.samples += [dict(template=x["tpl"], text=x["obs"].get("text"), error=x["obs"].get("err", ""))
                    for x in recs[1000:len(recs):max(1, len(recs) // 3)]][:3]
    nr = 60 if ctx.quick else 600
    of = ctx.path("obs_rand2.ndjson")
    ctx.drive("c06", None, of, args=["fam2", nr, cf])
    ctx.judge("Judge_c06t", "Judge_c06t.cfg", of, label="rand2", chunk=8000)
    ctx.note("family 2 random strings x templates: %d" % ctx.count_lines(of))
    ctx.coverage_extra["exhaustive_parts"] = [p[0] + "^<=%d" % p[1] for p in parts] + ["%s^<=%d x templates" % (sigma, n)]
    ctx.coverage_extra["sampled_parts"] = ["rand1", "rand2"]
    ctx.exhaustive = False
    return vp.case_finder


def replay(ctx, path):
    rec = json.load(open(path))
    fam2 = "tpl" in (rec.get("case") or {})
    mod = "Judge_c06t" if fam2 else "Judge_c06"
    return vp.generic_replay("c06", mod, mod + ".cfg", SPECDIRS)(ctx, path)
