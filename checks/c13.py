"""C13 - every operation on a parsed statement is total."""
import vp
from checks import grammar_common as g

LEVEL = "model_checking"
SPECDIRS = g.SPECDIRS + ("c13", "c04")


CLOSURE_PARTS = ("calls", "exprs", "dims", "conds", "regex", "sources", "cross", "dictcalls")


def run(ctx):
    ctx.stage_specs(*SPECDIRS)
    ctx.build_driver()
    ctx.rule = ("TLC enumerates (a) 'accepted but odd' SELECT statements from spec/c13/Gen_c13.tla: calls of 16 function names with 0..4 "
                "arguments of 18 node kinds in field / grouped / WHERE / INTO positions, 28 arithmetic oddities (zero and fractional "
                "divisors, overflow, time arithmetic), 35 dimension lists (time() with 0..3 arguments of any kind, non-time calls, "
                "literals), 38 conditions, and the cross product conditions x dimensions; (b) the Grammar corpus of all 25 statement "
                "kinds. The driver runs ~35 public operations (printing, cloning, walking, rewriting, reducing under three valuers, "
                "wildcard expansion under two schemas, ConditionExpr, Eval/EvalType, GroupBy*, Normalize, ColumnNames, names, "
                "privileges, SetTimeRange, three two-step sequences) on a fresh parse each, under recover. Distinct = distinct texts; "
                "non-trivial = accepted by the parser (rejected texts are outside the property).")
    ctx.assumptions = ["TLC 1.8 + CommunityModules", "recover() observes every panic of the called operation",
                       "operations are run with fixed representative arguments (clock, valuer, two schemas)"]
    parts = []
    for part in (["calls", "exprs", "dims", "conds", "regex", "sources", "dictcalls"] + ([] if ctx.quick else ["cross"])):
        cfg = "Gen_c13_%s.cfg" % part
        open(ctx.path("spec", cfg), "w").write('SPECIFICATION Spec\nCONSTANTS Part = "%s"\nCHECK_DEADLOCK FALSE\n' % part)
        cf = ctx.path("cases_%s.ndjson" % part)
        ctx.tlc("Gen_c13", cfg, env={"CASE_FILE": cf, "DICT_FILE": ctx.source_dict()}, workers=1)
        parts.append((part, cf))
    parts += g.gen_statements(ctx, "selectq")[: (1 if ctx.quick else 2)]
    parts.append(("deep", g.gen_deep(ctx, 4000 if ctx.quick else 40000, 4 if ctx.quick else 5)))
    parts.append(("names", g.gen_names(ctx)))
    parts.append(("dict", g.gen_dict(ctx)))
    # (c) every single-token mutation (delete / duplicate / swap / truncate / replace) of the 30 base statements of
    # spec/c04/Gen_c04w.tla: whatever the parser still accepts must be total under every operation
    from checks import c04 as _c04
    cf, _r = _c04.gen(ctx, "Gen_c04w", "mut", {"N": 1, "Part": '"mut"', "Sizes": "{64}"})
    parts.append(("mutations", cf))
    for name, cf in parts:
        of = ctx.path("obs_%s.ndjson" % name)
        # the odd-statement parts also run every operation on the result of every statement-producing operation
        ctx.drive("c13", cf, of, env={"VERIF_C13_CLOSURE": "1"} if name in CLOSURE_PARTS else None)
        ctx.note("%s: %d statements" % (name, ctx.count_lines(of)))
        ctx.judge("Judge_c13", "Judge_c13.cfg", of, label=name, chunk=10000)
        if name == "dims":
            recs = ctx.read_ndjson(of)
            ctx.samples = [dict(text=x["obs"]["text"], accepted=x["obs"]["accepted"], ops=len(x["obs"].get("ops", [])))
                           for x in recs[3:len(recs):len(recs) // 5]]
    def corrupt(r):
        ops = r["obs"].get("ops") or []
        if r["obs"].get("accepted") and ops:
            ops[len(ops) // 2]["out"] = "panic"
            return True
        return False
    vp.binding_selftest(ctx, "Judge_c13", "Judge_c13.cfg", ctx.path("obs_dims.ndjson"), corrupt)
    # the repository's own test statements (~400, in the maintainers' spellings) as an extra trace source
    of = ctx.path("obs_repo.ndjson")
    ctx.drive("c13", None, of, args=["repo-corpus"])
    if ctx.count_lines(of) < 100:
        raise vp.Broken("repo corpus: only %d statements harvested from the repository's test files" % ctx.count_lines(of))
    ctx.judge("Judge_c13", "Judge_c13.cfg", of, label="repo")
    ctx.note("repo corpus: %d statements from the repository's own tests" % ctx.count_lines(of))
    return vp.case_finder


replay = vp.generic_replay("c13", "Judge_c13", "Judge_c13.cfg", SPECDIRS)
