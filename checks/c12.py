"""C12 - wildcard expansion: RewriteFields replaces wildcards / regexes by exactly the matching schema columns."""
import random
import vp

LEVEL = "model_checking"
SPECDIRS = ("c12",)

INVARIANTS = ("InvIdempotent InvNoWildLeft InvErrOnlyUnspec InvSorted InvExactStar "
              "InvDesignDeviatesOnlyWhereNamed")
SLICES = ["positions", "functions", "multicall", "sources", "extras", "typepairs", "shadow", "wide", "dbs", "subtypes", "unspecified"]   # spec/c12/Slices_c12.tla
CONSTS = ["Cores", "GroupBys", "Befores", "Afters", "Srcs", "Conds", "Schemas"]

# The seeded slice: VERIF_SEED draws a sub-product from the whole vocabulary (Slices_c12!All*).
# TLC does the drawing (RandomSubset is not used: the choice must be reproducible from the seed
# alone, so Python picks indices and TLC picks the elements by position in a fixed enumeration).
SEEDED = """---- MODULE Seeded_c12 ----
EXTENDS Slices_c12
Draw(S, idx) == LET s == SetToSeq(S) IN {s[((i - 1) %% Len(s)) + 1] : i \\in idx}
S_Cores == Draw(AllCores, %s)
S_GroupBys == Draw(AllGroupBys, %s)
S_Befores == Draw(AllExtras, %s)
S_Afters == Draw(AllExtras, %s)
S_Srcs == Draw(AllSrcs, %s)
S_Conds == Draw(AllConds, %s)
S_Schemas == Draw(AllSchemas, %s)
====
"""


def slice_cfg(prefix):
    return ("SPECIFICATION Spec\nCONSTANTS\n" + "".join("  %s <- %s_%s\n" % (c, prefix, c) for c in CONSTS)
            + "INVARIANTS " + INVARIANTS + "\nCHECK_DEADLOCK FALSE\n")


def idxset(rnd, n):
    return "{" + ", ".join(str(rnd.randrange(1, 1000)) for _ in range(n)) + "}"


def drive(ctx, cf, of):
    """a slice takes the driver 1-5 s; one retry so that a stalled sandbox is not reported as a dead driver"""
    try:
        ctx.drive("c12", cf, of, timeout=300)
    except vp.Broken as ex:
        if "driver timeout" not in str(ex):
            raise
        ctx.note("driver timed out after 300 s on %s; one retry" % cf)
        ctx.drive("c12", cf, of, timeout=900)


def run(ctx):
    ctx.stage_specs(*SPECDIRS)
    ctx.build_driver()
    ctx.rule = ("TLC enumerates (SELECT statement, schema) pairs: wildcard kind x position x GROUP BY x extra fields x "
                "sources x WHERE x schema, inside the sets of each slice (BFS, every pair once). Each statement is "
                "rendered from tokens, parsed by the real parser and rewritten 8 times by RewriteFields with a "
                "FieldMapper that builds fresh Go maps on every call, then - after a prelude of other wildcard statements over "
                "the same schema - 4 more times with a FieldMapper that hands out the SAME maps on every call (a schema cache). Distinct = distinct (token sequence, schema) "
                "pairs (hash de-duplicated by the driver). Non-trivial = some wildcard or regex expanded to two or "
                "more columns, so that order matters (counted by the TLA+ judge).")
    ctx.assumptions = ["TLC 1.8 and the CommunityModules Json/CSV/SequencesExt modules",
                       "the Go AST projection (harness/project.go) and token renderer (harness/render.go)",
                       "Go's regexp and sort.Strings agree with the spec's tables on the 10-name universe "
                       "(confirmed per case by the judge from what the driver logged)",
                       "the FieldMapper of harness/suite_c12.go: a field of a name wins over a tag of that name; "
                       "CallType mean->float, count->integer, else type of the first argument",
                       "exhaustive only inside the sets of each slice; slices are representatives of the full product"]
    tier = "Q" if ctx.quick else "T"
    runs = [(s, "Slices_c12", "Slices_c12_%s_%s.cfg" % (tier, s)) for s in SLICES]
    rnd = random.Random(ctx.seed)
    sizes = (3, 2, 2, 2, 2, 2, 3) if ctx.quick else (5, 3, 2, 2, 4, 2, 5)
    open(ctx.path("spec", "Seeded_c12.tla"), "w").write(SEEDED % tuple(idxset(rnd, n) for n in sizes))
    open(ctx.path("spec", "Seeded_c12.cfg"), "w").write(slice_cfg("S"))
    runs.append(("seeded", "Seeded_c12", "Seeded_c12.cfg"))
    classes = {}
    for name, module, cfgname in runs:
        cf = ctx.path("cases_%s.ndjson" % name)
        r = ctx.tlc(module, cfgname, env={"CASE_FILE": cf}, workers=4, timeout=1500, expect_ok=False)
        if r.invariant_violated:
            raise vp.Broken("pass M: an invariant of Gen_c12 is violated in slice %s:\n%s" % (name, r.out[-3000:]))
        if not r.ok:
            raise vp.Broken("TLC failed on %s/%s (rc=%d):\n%s" % (module, cfgname, r.rc, "\n".join(r.out.splitlines()[-40:])))
        of = ctx.path("obs_%s.ndjson" % name)
        drive(ctx, cf, of)
        n = ctx.count_lines(of)
        if n == 0 or n != ctx.count_lines(cf):
            raise vp.Broken("slice %s: %d distinct cases from %d generated" % (name, n, ctx.count_lines(cf)))
        ctx.note("%s: pairs=%d (TLC %d states, %.0fs)" % (name, n, r.distinct, r.wall))
        vs = ctx.judge("Judge_c12", "Judge_c12.cfg", of, label=name, chunk=2500, timeout=1500)
        bad = [v for v in vs if str(v.get("class", "")).startswith("machinery:")]
        if bad:
            raise vp.Broken("slice %s: %d record(s) where the spec's assumptions about Go or the generated text do "
                            "not hold, e.g. %s" % (name, len(bad), vp.short(bad[0])))
        for v in vs:
            classes[v.get("class")] = classes.get(v.get("class"), 0) + 1
        if len(ctx.samples) < 5:
            recs = [x for x in ctx.read_ndjson(of)[3:600:41]
                    if x["obs"].get("res") and "::" in x["obs"]["res"][0].get("str", "")]
            ctx.samples += [dict(text=x["obs"]["text"], schema=x["schema"],
                                 rewritten=x["obs"]["res"][0].get("str", x["obs"]["res"][0].get("err")))
                            for x in recs[:1]]
    ctx.exhaustive = False
    ctx.coverage_extra["slices"] = [r[0] for r in runs]
    ctx.coverage_extra["calls_per_pair"] = 12
    ctx.coverage_extra["verdict_classes"] = classes
    return vp.case_finder


_replay = vp.generic_replay("c12", "Judge_c12", "Judge_c12.cfg", SPECDIRS)


def replay(ctx, path):
    rc = _replay(ctx, path)
    bad = [v for v in ctx.verdicts if str(v.get("class", "")).startswith("machinery:")]
    if bad:
        raise vp.Broken("replay: the spec's assumptions about Go or the recorded text do not hold: " + vp.short(bad[0]))
    return rc
