"""C11 - regex -> literal rewriting preserves which strings match."""
import concurrent.futures
import json
import os
import re as _re

import vp

LEVEL = "model_checking"
SPECDIRS = ("c11",)
JUDGES = max(2, min(8, vp.NCPU // 2))      # judge JVMs running side by side


def sset(*xs):
    return "{" + ", ".join('"%s"' % x for x in xs) + "}"


def cfg(atoms, binatoms, unops, binops, depth, ap, pres, shapes, tmpls, ops=("=~", "!~"), maxcard=260,
        inv="ModelSoundOrKnown"):
    return ("SPECIFICATION Spec\nCONSTANTS\n  AtomNames = %s\n  BinAtoms = %s\n  UnOps = %s\n  BinOps = %s\n"
            "  MaxDepth = %d\n  MaxCard = %d\n  AnchorPairs <- %s\n  Pres = %s\n  Shapes = %s\n  Ops = %s\n  Tmpls = %s\n"
            "INVARIANTS %s\nCHECK_DEADLOCK FALSE\n" % (sset(*atoms), sset(*binatoms), sset(*unops), sset(*binops), depth,
                                                       maxcard, ap, sset(*pres), sset(*shapes), sset(*ops), sset(*tmpls), inv))


ALONE = ("host @",)
TMPLS = ("host @", "host @ AND dc = 'x'", "host @ OR dc = 'y'", "(host @)", "dc = 'x' AND host @",
         "(host @ OR dc = 'y') AND dc = 'x'", "host::tag @", "dc = 'y' OR (host @ AND dc = 'x')")
UN_ALL = ("cap", "grp", "quest", "questng", "star", "plus", "r2", "r12", "r2o")
UN_MORE = UN_ALL + ("starng", "r0", "r1", "r3", "r01", "r23", "r0o")
CORE_ATOMS = ("a", "ab", "Iab", "c3", "Ic2", "dot", "empty")
CORE_BIN = ("a", "cd", "Ib", "c3")
WIDE_ATOMS = ("w99", "w100", "w101", "w50", "c100", "c101", "c100s", "c101s", "c50", "c51", "c10", "c11")
WIDE_BIN = ("c2", "c10", "a", "c50", "c51", "w2", "c5")
ODD_ATOMS = ("foo", "k", "Ik", "I1", "nl", "dollar", "c2x", "c1", "cAa", "dotnl", "wb", "neg", "w2", "c0")


def parts(quick):
    """(name, cfg text, simulate, depth) - BFS-exhaustive inside its constants unless simulate is set"""
    P = []
    if quick:
        for k, pre in enumerate(("", "m")):
            P.append(("core_%d" % k, cfg(("a", "ab", "Iab", "c3", "Ic2"), CORE_BIN, UN_ALL, ("cat", "alt"), 1, "AP_six", (pre,), ("plain",), ALONE),
                      None, None))
        P.append(("corei", cfg(("a", "ab", "c3"), ("a", "c3"), ("cap", "quest", "r2"), ("cat", "alt"), 1, "AP_std", ("i", "im"), ("plain",), ALONE), None, None))
        P.append(("ctx", cfg(("a", "c3"), ("cd",), ("cap",), ("alt",), 1, "AP_std", ("",), ("plain",), TMPLS), None, None))
        P.append(("shapes", cfg(("a", "c3"), ("cd",), ("cap", "quest"), (), 1, "AP_core", ("", "m"),
                                ("capall", "grpall", "inner", "altun", "trail"), ALONE, ops=("=~",)), None, None))
        P.append(("odd", cfg(ODD_ATOMS + ("dot", "empty"), ("a", "c0"), ("cap", "r2"), ("cat",), 1, "AP_std", ("", "i", "s"), ("plain",), ALONE,
                             ops=("=~",)), None, None))
        # the named classes next to single-valued text and alone ( s-\d , \ds , \d ): shared tables
        P.append(("named", cfg(("d10", "w63", "lower", "sdash", "a", "lat2", "latdm", "lat80"), ("d10", "sdash", "a", "lower", "caf", "lat2"), ("cap", "r2"), ("cat", "alt"), 1, "AP_one", ("",), ("plain",), ALONE, maxcard=700),
                  None, None))
        # alternations of separately anchored branches, one of them empty
        P.append(("altanch", cfg(("a", "ab", "c3", "empty"), ("cd", "c3"), ("cap", "quest"), ("cat", "alt"), 1, "AP_std", ("", "m"), ("altempty", "emptyalt", "altanch"), ALONE),
                  None, None))
        # anchors inside the expression, next to literals (two constructor applications: a $ b)
        P.append(("inanch", cfg(("a", "ab", "eot", "bot", "empty"), ("a", "eot", "bot", "eol", "dollar"), ("cap",), ("cat",), 2, "AP_std", ("", "m"), ("plain",), ALONE),
                  None, None))
        P.append(("wideA", cfg(("w99", "w100", "w101", "w50"), ("c2", "a", "c50", "c51"), ("cap",), ("cat", "alt"), 1, "AP_one", ("", "m"),
                               ("plain",), ALONE, maxcard=300), None, None))
        P.append(("wideB", cfg(("c100", "c101", "c100s", "c101s", "c50", "c51", "c10", "c11"), ("c2", "c10", "a", "c50", "c51"), ("cap", "r2"),
                               ("cat", "alt"), 1, "AP_one", ("", "m"), ("plain",), ALONE, maxcard=300), None, None))
        P.append(("prod", cfg(("c2", "ab"), ("d2", "e2", "a"), (), ("cat", "alt"), 2, "AP_one", ("",), ("plain",), ALONE), None, None))
        P.append(("deep", cfg(CORE_ATOMS + ODD_ATOMS, CORE_BIN + ("c2", "nl"), UN_MORE, ("cat", "alt"), 3, "AP_all",
                              ("", "i", "m", "s", "im"), ("plain", "capall", "inner", "altun"), TMPLS), "num=700", 11))
    else:
        for k, pre in enumerate(("", "i", "m", "im")):
            P.append(("core_%d" % k, cfg(CORE_ATOMS, CORE_BIN, UN_MORE, ("cat", "alt"), 1, "AP_all", (pre,), ("plain",), ALONE), None, None))
        for k, (pre, op) in enumerate((("", "=~"), ("", "!~"), ("m", "=~"), ("m", "!~"))):
            P.append(("core2_%d" % k, cfg(("a", "ab", "Iab", "c3", "Ic2"), CORE_BIN, UN_ALL, ("cat", "alt"), 2, "AP_two", (pre,), ("plain",), ALONE,
                                          ops=(op,)), None, None))
        P.append(("ctx", cfg(("a", "c3", "Iab", "ab"), ("cd",), ("cap", "quest"), ("alt", "cat"), 1, "AP_std", ("", "m"), ("plain",), TMPLS), None, None))
        P.append(("shapes", cfg(("a", "ab", "c3", "Iab"), ("cd",), ("cap", "quest", "r2"), ("alt",), 1, "AP_core", ("", "m", "i"),
                                ("capall", "grpall", "inner", "altun", "trail"), ALONE), None, None))
        for k, pre in enumerate(("", "i", "s", "m")):
            P.append(("odd_%d" % k, cfg(ODD_ATOMS, ("a", "c2", "c0"), UN_ALL, ("cat", "alt"), 1, "AP_std", (pre,), ("plain",), ALONE), None, None))
        P.append(("named", cfg(("d10", "w63", "lower", "sdash", "a", "ab", "lat2", "latdm", "lat80"), ("d10", "sdash", "a", "lower", "w63", "caf", "lat2"), ("cap", "r2", "quest"), ("cat", "alt"), 2, "AP_std", ("", "i"), ("plain",), ALONE, maxcard=700),
                  None, None))
        P.append(("altanch", cfg(("a", "ab", "c3", "Iab", "empty", "foo"), ("cd", "c3", "a"), ("cap", "quest", "r2"), ("cat", "alt"), 2, "AP_core", ("", "m", "i"), ("altempty", "emptyalt", "altanch"), ALONE),
                  None, None))
        P.append(("inanch", cfg(("a", "ab", "c2", "eot", "bot", "eol", "bol", "empty"), ("a", "eot", "bot", "eol", "bol", "dollar", "c2"), ("cap", "quest"), ("cat", "alt"), 2,
                                "AP_std", ("", "m", "i"), ("plain",), ALONE), None, None))
        P.append(("wideA", cfg(("w99", "w100", "w101", "w50"), WIDE_BIN, ("cap", "r2"), ("cat", "alt"), 1, "AP_two", ("", "i"),
                               ("plain",), ALONE, maxcard=300), None, None))
        P.append(("wideB", cfg(("c100", "c101", "c100s", "c101s", "c50", "c51", "c10", "c11", "c5", "c4", "neg"), WIDE_BIN, ("cap", "r2", "r3"),
                               ("cat", "alt"), 1, "AP_two", ("", "i"), ("plain",), ALONE, maxcard=300), None, None))
        P.append(("prod", cfg(("c2", "w2", "ab", "c3"), ("d2", "e2", "w2", "a", "c4"), ("cap",), ("cat", "alt"), 2, "AP_one", ("",),
                              ("plain",), ALONE, maxcard=130), None, None))
        for k in (1, 2, 3, 4):
            P.append(("deep%d" % k, cfg(CORE_ATOMS + ODD_ATOMS, CORE_BIN + ("c2", "nl"), UN_MORE, ("cat", "alt"), 3, "AP_all",
                                        ("", "i", "m", "s", "im"), ("plain", "capall", "inner", "altun"), TMPLS), "num=1500", 11))
    return P


# Every generator run uses ONE TLC worker: CSVWrite calls of concurrent workers interleave their
# lines (seen on this machine under load, also for lines of 2 KB); parallelism comes from running
# several parts as separate TLC processes instead.
GEN_PROCS = 6


def gen(ctx, name, text, simulate, depth):
    c = "Gen_c11_%s.cfg" % name
    open(ctx.path("spec", c), "w").write(text)
    cf = ctx.path("cases_%s.ndjson" % name)
    r = ctx.tlc("Gen_c11", c, env={"CASE_FILE": cf}, workers=1, simulate=simulate, depth=depth, timeout=1500,
                expect_ok=False, count=False,
                extra=["-aril", name[4:]] if simulate and name[4:].isdigit() else None)    # deepN: N-th random stream
    if simulate:
        # vp.TLCResult takes the first "N states checked" progress line; the summary line is the total
        m = _re.search(r"The number of states generated: (\d+)", r.out)
        if m:
            r.generated = r.distinct = int(m.group(1))
    if r.invariant_violated:
        raise vp.Broken("pass M: the design spec RegexRewrite is unsound against RegexLang in a way that is not the named "
                        "deviation (part %s):\n%s" % (name, r.out[-3000:]))
    if not r.ok:
        raise vp.Broken("TLC failed on Gen_c11/%s:\n%s" % (c, r.out[-3000:]))
    return cf, r


def strict_model_check(ctx):
    """pass M without the named deviation: TLC must refute it (the design accepts line anchors)."""
    c = "MC_c11_strict.cfg"
    cf = ctx.path("cases_strict.ndjson")
    r = ctx.tlc("Gen_c11", c, env={"CASE_FILE": cf}, workers=1, timeout=600, expect_ok=False)
    if r.invariant_violated and "ModelSound" in r.out:
        pre = _re.findall(r'pre \|-> "([a-z]*)"', r.out)
        ap = _re.findall(r'ap \|-> <<"([^"]*)", "([^"]*)">>', r.out)
        body = _re.findall(r'body = (.*)', r.out)
        ctx.note("pass M (strict): TLC refutes ModelSound - counterexample: flags=%r anchors=%r body=%s (the design "
                 "rewrites an expression anchored by a line anchor)" % (pre[-1] if pre else "?", ap[-1] if ap else "?",
                                                                       body[-1] if body else "?"))
        return True
    if r.ok:
        ctx.note("pass M (strict): ModelSound holds - the design no longer admits the line-anchor counterexample")
        return False
    raise vp.Broken("strict model check failed to run:\n" + r.out[-3000:])


def split_by_size(path, target_bytes):
    """split an ndjson file into pieces of roughly target_bytes; returns [(path, nlines)]"""
    out, buf, size, i = [], [], 0, 0

    def flush():
        nonlocal buf, size, i
        if buf:
            p = "%s.p%03d" % (path, i)
            with open(p, "w", encoding="utf-8") as f:
                f.write("".join(buf))
            out.append((p, len(buf)))
            buf, size, i = [], 0, i + 1
    with open(path, encoding="utf-8", errors="replace") as f:
        for line in f:
            buf.append(line)
            size += len(line)
            if size >= target_bytes:
                flush()
    flush()
    return out


def judge_piece(ctx, item):
    label, p, cnt = item
    vf, sf = p + ".verdicts", p + ".stats"
    r = ctx.tlc("Judge_c11", "Judge_c11.cfg", env={"OBS_FILE": p, "VERDICT_FILE": vf, "STATS_FILE": sf}, workers=1,
                timeout=3000, heap="3g", expect_ok=False, count=False)
    if not r.ok:
        raise vp.Broken("judge Judge_c11 did not accept %s (rc=%d):\n%s" % (p, r.rc, "\n".join(r.out.splitlines()[-30:])))
    st = ctx.read_ndjson(sf)
    if not st or int(st[-1].get("judged", -1)) != cnt:
        raise vp.Broken("judge Judge_c11 consumed %s of %d records of %s" % (st[-1].get("judged") if st else None, cnt, p))
    vs = ctx.read_ndjson(vf)
    for v in vs:
        v["_obsfile"] = p
        v["_part"] = label
    return label, cnt, st[-1], vs, r


def account(ctx, res):
    """accumulate one judged piece the way ctx.judge does (called from the main thread only)"""
    label, cnt, st, vs, r = res
    ctx.states += r.distinct
    ctx.transitions += r.generated
    ctx.judged += cnt
    ctx.nontrivial += int(st.get("nontrivial", 0))
    for k, v in st.items():
        if k not in ("judged", "nontrivial") and isinstance(v, int):
            lab = label.split("_")[0]
            ctx.coverage_extra[lab + "." + k] = ctx.coverage_extra.get(lab + "." + k, 0) + v
            ctx.coverage_extra[k] = ctx.coverage_extra.get(k, 0) + v
    ctx.verdicts.extend(vs)


def produce(ctx, part):
    """generate, drive and split one part; returns (pieces, note, sample)"""
    name, text, sim, depth = part
    cf, r = gen(ctx, name, text, sim, depth)
    of = ctx.path("obs_%s.ndjson" % name)
    ctx.drive("c11", cf, of, timeout=1500)
    n = ctx.count_lines(of)
    note = "%s: generated=%d distinct cases=%d (TLC %d states, %.0fs)%s" % (
        name, ctx.count_lines(cf), n, r.distinct, r.wall, " [simulation]" if sim else "")
    if n == 0:
        raise vp.Broken("part %s produced no cases" % name)
    os.remove(cf)
    sample = None
    with open(of, encoding="utf-8") as f:
        for i, line in enumerate(f):
            if i == min(7, n - 1):
                x = json.loads(line)
                sample = dict(text=x["obs"].get("text"), after=x["obs"].get("cond1"))
                break
    pieces = [(name, p, cnt) for p, cnt in split_by_size(of, 2_500_000 if ctx.quick else 3_000_000)]
    os.remove(of)
    return pieces, note, sample, r


def run(ctx):
    ctx.stage_specs(*SPECDIRS)
    ctx.build_driver()
    ctx.rule = ("TLC enumerates regular-expression syntax trees (atoms, then <= MaxDepth constructor applications), anchors, "
                "flag prefix, outer shape, operator and condition template; each case is rendered to `SELECT v FROM m WHERE "
                "<cond>`, parsed, evaluated by the real ValuerEval on every candidate string before and after "
                "RewriteRegexConditions. Distinct = distinct cases (hash de-duplicated by the driver). Non-trivial = the real "
                "code replaced the regex test, or the expression is anchored at both ends so that matchRegex had to read its "
                "body (counted by the TLA+ judge).")
    ctx.assumptions = ["TLC 1.8 and the CommunityModules Json/CSV modules",
                       "Go's regexp engine as the reference RegexLang!Matches is validated against on every candidate "
                       "(a disagreement is reported as machinery failure, never as a violation)",
                       "Go's regexp/syntax parser and Simplify: the design spec reads the logged tree, it does not re-implement them",
                       "the pattern renderer and tree projection in harness/suite_c11.go",
                       "strings outside the candidate sets (length > 3 over the expression's letters) are not explored"]
    model_refuted = strict_model_check(ctx)
    plist = parts(ctx.quick)
    with concurrent.futures.ThreadPoolExecutor(max_workers=GEN_PROCS) as gpool, \
            concurrent.futures.ThreadPoolExecutor(max_workers=JUDGES) as jpool:
        gfuts = [gpool.submit(produce, ctx, p) for p in plist]
        jfuts = []
        first_piece = None
        for f in concurrent.futures.as_completed(gfuts):
            pieces, note, sample, r = f.result()
            if pieces and (first_piece is None or pieces[0][0] == "ctx"):
                first_piece = pieces[0][1]
            ctx.states += r.distinct
            ctx.transitions += r.generated
            ctx.note(note)
            if sample and len(ctx.samples) < 5:
                ctx.samples.append(sample)
            jfuts += [jpool.submit(judge_piece, ctx, it) for it in pieces]
        for f in concurrent.futures.as_completed(jfuts):
            account(ctx, f.result())
    # binding self-test (when the shared library offers it): flip one recorded truth value per record
    if hasattr(vp, "binding_selftest") and first_piece:
        def corrupt(r):
            a = r.get("obs", {}).get("after")
            if not a or not a[0]:
                return False
            a[0][0] = 1 - a[0][0]        # the empty string: never a newline candidate
            return True
        vp.binding_selftest(ctx, "Judge_c11", "Judge_c11.cfg", first_piece, corrupt, n=60)
    ctx.exhaustive = False
    ctx.coverage_extra["exhaustive_parts"] = [p[0] for p in plist if not p[2]]
    ctx.coverage_extra["sampled_parts"] = [p[0] for p in plist if p[2]]
    ctx.coverage_extra["model_strict_refuted"] = bool(model_refuted)

    # machinery classes: never a violation, never silently ignored
    classes = {}
    for v in ctx.verdicts:
        classes[v.get("class")] = classes.get(v.get("class"), 0) + 1
    ctx.coverage_extra["verdict_classes"] = classes
    ctx.note("verdict classes: %s" % json.dumps(classes, sort_keys=True))
    bad = [v for v in ctx.verdicts if v.get("class") in ("drift:matcher", "drift:design-unsound")]
    if bad:
        raise vp.Broken("%d record(s) where the specification itself is wrong (%s), e.g. %s" % (
            len(bad), ", ".join(sorted({v["class"] for v in bad})), vp.short(bad[0])))
    unusable = [v for v in ctx.verdicts if v.get("class") == "drift:unusable"]
    if len(unusable) > max(5, ctx.judged // 100):
        raise vp.Broken("%d of %d cases could not be rendered / parsed, e.g. %s" % (len(unusable), ctx.judged, vp.short(unusable[0])))
    if model_refuted and not any(v.get("class") == "Dev_MultilineAnchorsRewritten" for v in ctx.verdicts):
        ctx.note("the model-level counterexample (line anchors) was NOT reproduced on the real code: the design spec "
                 "RegexRewrite no longer describes this tree (see MODEL-DRIFT)")
    return vp.case_finder


replay = vp.generic_replay("c11", "Judge_c11", "Judge_c11.cfg", SPECDIRS)
