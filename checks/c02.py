"""C02 - printed statements re-parse to the same AST."""
import vp
from checks import grammar_common as g

LEVEL = "model_checking"


def run(ctx):
    ctx.stage_specs(*g.SPECDIRS)
    ctx.build_driver()
    ctx.rule = ("Every statement of the Grammar corpus (25 kinds x all clause options, SELECT lattice; names that need quoting, "
                "keywords as names, extreme / fractional numbers and durations, negated operands, regexes with slashes, nested "
                "subqueries) is parsed, printed with String() and parsed again by the real code; the TLA+ judge compares the two "
                "ASTs (modulo password text) and recognises the unary-minus regrouping with the print->parse model of spec/c03. "
                "Distinct = distinct texts; non-trivial = statement record has at least two slots beyond its kind.")
    ctx.assumptions = ["TLC 1.8 + CommunityModules", "the reflective AST projection", "password statements are re-parsed after "
                       "writing a placeholder literal where [REDACTED] was printed"]
    parts = g.gen_statements(ctx, "selectq" if ctx.quick else "select")
    parts.append(("deep", g.gen_deep(ctx, 6000 if ctx.quick else 60000, 4 if ctx.quick else 5)))
    parts.append(("names", g.gen_names(ctx)))
    parts.append(("dict", g.gen_dict(ctx)))
    for name, cf in parts:
        of = ctx.path("obs_%s.ndjson" % name)
        ctx.drive("c01", cf, of)
        ctx.judge("Judge_c02", "Judge_c02.cfg", of, label=name, chunk=10000)
        if name == "kinds":
            recs = ctx.read_ndjson(of)
            ctx.samples = [dict(text=x["obs"]["text"], printed=x["obs"].get("str")) for x in recs[5:len(recs):len(recs) // 5]]
    # the repository's own test statements (~400, in the maintainers' spellings) as an extra trace source
    of = ctx.path("obs_repo.ndjson")
    ctx.drive("c01", None, of, args=["repo-corpus"])
    if ctx.count_lines(of) < 100:
        raise vp.Broken("repo corpus: only %d statements harvested from the repository's test files" % ctx.count_lines(of))
    ctx.judge("Judge_c02", "Judge_c02.cfg", of, label="repo")
    ctx.note("repo corpus: %d statements from the repository's own tests" % ctx.count_lines(of))
    return vp.case_finder


replay = vp.generic_replay("c01", "Judge_c02", "Judge_c02.cfg", g.SPECDIRS)
